"""Harness bootstrap: import the tree under test deterministically.

* sys.argv is set before src.args parses it; the global `random` is seeded
  before src.utils samples its word pool;
* the tree is imported from VERIF_REPO (default /repo), first on sys.path;
* AST nodes are identity-hashed and kept in sets by the generator, so the
  same seed gives different programs under ASLR.  Node.__new__/__hash__ are
  replaced *from the harness* by a creation counter (reset per case); no
  change to the repository is needed for this.
"""
import itertools
import os
import random as pyrandom
import sys

LANGS = ['java', 'kotlin', 'groovy', 'scala']
_state = {}


def repo():
    return os.environ.get('VERIF_REPO', '/repo')


def init(lang='kotlin', wordseed=0, extra_argv=(), bugs=None, patch_hash=True):
    """Import the tree for one language (one language per process)."""
    if _state.get('lang') is not None:
        assert _state['lang'] == lang, 'one language per process'
        return _state['utils']
    bugs = bugs or os.path.join(os.environ.get('VERIF_SCRATCH', '/tmp'), 'verif_bugs_%d' % os.getpid())
    sys.argv = ['hephaestus.py', '--language', lang, '-i', '1', '--bugs', bugs,
                '--name', 'vsession'] + list(extra_argv)
    r = repo()
    if r in sys.path:
        sys.path.remove(r)
    sys.path.insert(0, r)
    pyrandom.seed(wordseed)
    from src.ir import node as _node
    if patch_hash:
        cnt = [itertools.count()]

        def _n_new(cls, *a, **k):
            o = object.__new__(cls)
            object.__setattr__(o, '_verif_id', next(cnt[0]))
            return o
        _node.Node.__new__ = _n_new
        def _n_hash(self):
            # objects created before the patch (module-level singletons such as types.Nothing) get their id lazily
            try:
                return self._verif_id
            except AttributeError:
                i = next(cnt[0])
                object.__setattr__(self, '_verif_id', i)
                return i
        _node.Node.__hash__ = _n_hash
        _state['cnt'] = cnt
    from src.args import args  # noqa: F401  (parses sys.argv, sets cfg, removes reserved words)
    from src import utils
    from src.generators.config import cfg
    _state.update(lang=lang, utils=utils, cfg=cfg, args=args)
    _state['defaults'] = snapshot_cfg()
    return utils


def init_types_only():
    """Import only the type layer (no language / argv dependence)."""
    r = repo()
    if r in sys.path:
        sys.path.remove(r)
    sys.path.insert(0, r)
    pyrandom.seed(0)


def snapshot_cfg():
    cfg = _state['cfg']
    import copy
    return copy.deepcopy((cfg.limits, cfg.prob, cfg.dis))


def restore_cfg():
    import copy
    cfg = _state['cfg']
    limits, prob, dis = copy.deepcopy(_state['defaults'])
    cfg.limits, cfg.prob, cfg.dis = limits, prob, dis


SWITCHES = ['usv_off', 'contra_off', 'bounded_off', 'pfunc_off']


def apply_config(switches=(), limits=None):
    """Apply generation switches exactly as src/args.py does."""
    restore_cfg()
    cfg = _state['cfg']
    sw = set(switches)
    cfg.dis.use_site_variance = 'usv_off' in sw
    cfg.dis.use_site_contravariance = 'contra_off' in sw
    if 'bounded_off' in sw:
        cfg.prob.bounded_type_parameters = 0
    if 'pfunc_off' in sw:
        cfg.prob.parameterized_functions = 0
    for k, v in (limits or {}).items():
        if k in ('max_fields', 'max_funcs'):
            setattr(cfg.limits.cls, k, v)
        elif k in ('max_side_effects', 'max_params'):
            setattr(cfg.limits.fn, k, v)
        else:
            setattr(cfg.limits, k, v)


def reset_case(seed=None, rnd=None):
    """Start of one generated case: node ids, word pool, RNG."""
    utils = _state['utils']
    if 'cnt' in _state:
        _state['cnt'][0] = itertools.count()
    utils.random.reset_word_pool()
    if rnd is not None:
        utils.random.r = rnd
    else:
        if not isinstance(utils.random.r, pyrandom.Random) or type(utils.random.r) is not pyrandom.Random:
            utils.random.r = pyrandom.Random()
        utils.random.r.seed(seed)


def translator_class(lang):
    from src.translators.java import JavaTranslator
    from src.translators.kotlin import KotlinTranslator
    from src.translators.groovy import GroovyTranslator
    from src.translators.scala import ScalaTranslator
    return {'java': JavaTranslator, 'kotlin': KotlinTranslator,
            'groovy': GroovyTranslator, 'scala': ScalaTranslator}[lang]


def switch_sets():
    out = []
    for m in range(16):
        out.append([s for i, s in enumerate(SWITCHES) if m >> i & 1])
    return out
