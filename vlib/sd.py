"""Structural snapshot / diff (SD).

pdiff(a, b): parallel walk of two object graphs by attributes (the judged
notion of "unchanged": unfolded structure).  It sees what __eq__ ignores
(supertypes of constructors, bounds, _can_infer_type_args, Context maps).
Harness bookkeeping attributes are ignored.  Aliasing structure is not
compared (pickle and some translators legitimately re-bind equal objects).
"""
IGNORE = ('_verif_id', '_verif_site')
PRIMS = (int, float, str, bool, type(None), bytes)


def pdiff(a, b, limit=12, ignore_attr=(), skip=None, slots=None, slot_cmp=None, slot_out=None):
    """skip(owner, attr) -> True ignores that attribute of that object.
    slots: set of (owner class name, attr) that are *declared-type slots*: they are not descended into but
    compared with slot_cmp(x, y) (-> True when equal); differing slots are appended to slot_out as
    (owner_a, owner_b, attr, x, y, path)."""
    out = []
    seen = set()
    ign = set(IGNORE) | set(ignore_attr)
    stack = [(a, b, '')]
    while stack and len(out) < limit:
        x, y, path = stack.pop()
        if isinstance(x, PRIMS) or isinstance(y, PRIMS):
            if type(x) is not type(y) or x != y:
                out.append((path, _r(x), _r(y)))
            continue
        k = (id(x), id(y))
        if k in seen:
            continue
        seen.add(k)
        if type(x) is not type(y):
            out.append((path, 'type ' + type(x).__name__ + ' ' + _r(x), 'type ' + type(y).__name__ + ' ' + _r(y)))
            continue
        if isinstance(x, (list, tuple)):
            if len(x) != len(y):
                out.append((path + '#len', len(x), len(y)))
                continue
            for i in range(len(x) - 1, -1, -1):
                stack.append((x[i], y[i], '%s[%d]' % (path, i)))
            continue
        if isinstance(x, dict):
            if len(x) != len(y):
                out.append((path + '#len', len(x), len(y)))
                continue
            for i, ((k1, v1), (k2, v2)) in enumerate(zip(list(x.items()), list(y.items()))):
                stack.append((v1, v2, '%s{%s}' % (path, k1 if isinstance(k1, (str, int, tuple)) else i)))
                stack.append((k1, k2, '%s{key%d}' % (path, i)))
            continue
        if isinstance(x, (set, frozenset)):
            if len(x) != len(y):
                out.append((path + '#len', len(x), len(y)))
                continue
            xs = sorted(x, key=repr)
            ys = sorted(y, key=repr)
            for i in range(len(xs)):
                stack.append((xs[i], ys[i], '%s{elem%d}' % (path, i)))
            continue
        dx = getattr(x, '__dict__', None)
        dy = getattr(y, '__dict__', None)
        if dx is None or dy is None:
            if repr(x) != repr(y):
                out.append((path, _r(x), _r(y)))
            continue
        keys = sorted((set(dx) | set(dy)) - ign)
        tn = type(x).__name__
        for key in reversed(keys):
            if skip is not None and skip(x, key):
                continue
            if slots is not None and (tn, key) in slots and key in dx and key in dy:
                if not slot_cmp(dx[key], dy[key]):
                    slot_out.append((x, y, key, dx[key], dy[key], path + '.' + key))
                continue
            if key not in dx or key not in dy:
                out.append((path + '.' + key, 'absent' if key not in dx else 'present',
                            'absent' if key not in dy else 'present'))
            else:
                stack.append((dx[key], dy[key], path + '.' + key))
    return out


def _r(x):
    try:
        return repr(x)[:160]
    except Exception:
        return '<%s>' % type(x).__name__


def twin(obj):
    import copy
    return copy.deepcopy(obj)
