/* Harness-only allocator tuning (no effect on program semantics).
 *
 * CPython >= 3.11 allocates the interpreter's frame data stack in 16 KiB
 * chunks through the "arena allocator" and returns a chunk to the OS as soon
 * as the recursion unwinds past it.  hephaestus recurses deeply (deepcopy of
 * type graphs), so a worker process performs ~16 000 mmap/munmap pairs per
 * second; in this sandbox those calls serialise across processes and 16
 * parallel shards run barely faster than 2.  This shim keeps freed 16 KiB
 * chunks on a small free list instead of unmapping them.  Everything else
 * is passed through to the original arena allocator.
 */
#include <stddef.h>

typedef struct {
    void *ctx;
    void *(*alloc)(void *ctx, size_t size);
    void (*free)(void *ctx, void *ptr, size_t size);
} PyObjectArenaAllocator;

extern void PyObject_GetArenaAllocator(PyObjectArenaAllocator *allocator);
extern void PyObject_SetArenaAllocator(PyObjectArenaAllocator *allocator);

#define CHUNK 16384
#define NCACHE 256

static PyObjectArenaAllocator orig;
static void *cache[NCACHE];
static int ncached = 0;
static int installed = 0;

static void *c_alloc(void *ctx, size_t size)
{
    if (size == CHUNK && ncached > 0) {
        return cache[--ncached];
    }
    return orig.alloc(orig.ctx, size);
}

static void c_free(void *ctx, void *ptr, size_t size)
{
    if (size == CHUNK && ncached < NCACHE) {
        cache[ncached++] = ptr;
        return;
    }
    orig.free(orig.ctx, ptr, size);
}

int verif_install_arena_cache(void)
{
    PyObjectArenaAllocator a;
    if (installed) return 1;
    PyObject_GetArenaAllocator(&orig);
    a.ctx = NULL;
    a.alloc = c_alloc;
    a.free = c_free;
    PyObject_SetArenaAllocator(&a);
    installed = 1;
    return 0;
}
