"""C08 — instantiation helpers pick type arguments within bounds and allowed variance.

Every top-level call of instantiate_type_constructor /
instantiate_parameterized_function is recorded (arguments and results as
terms) (a) while Hypothesis drives the helpers directly over synthetic generic
declarations (bounded, T2: T1 chains, bounds mentioning other parameters,
declared variance) with pools of ground types, bare generic classes and
primitives, constructed pre-assignments, variance-choice maps and the global
switches, and (b) while the real generator runs.  Post-conditions, judged with
the reference relation RM:
 P1 one argument per parameter / total map; P2 each argument (covariant
 projection: its bound) is a subtype of the parameter's declared bound under
 the returned assignment; P3 no primitive, no uninstantiated generic class;
 P4 requested assignments are kept (at most wrapped in a projection P5
 permits); P5 a use-site projection appears only where the caller's variance
 choices, the declared variance and the switches allow it and never on a
 parameter that another parameter's bound mentions."""
import random

from hypothesis import strategies as st

from vlib import boot, hyp, pg, pgrec, rm, tg

LEVEL = 'exploration'
RULE = ('case = one top-level call of an instantiation helper (arguments, result) recorded as terms; synthetic calls over '
        'Hypothesis-drawn declarations x pools x pre-assignments x variance choices x switches x flags, and every call made '
        'during real generation (4 languages); non-trivial = the declaration has a bounded parameter and >= 2 parameters, or a '
        'pre-assignment was given, or a projection was produced; distinct = distinct record')
ASSUMPTIONS = [
    'the caller\'s effective variance choices follow the documented overrides of instantiate_type_constructor (PECS for function '
    'types, disable_variance, disable_variance_functions)',
    'a contravariant projection argument is not judged against the bound (the statement names covariant projections only)',
    'recorded calls are judged against the program\'s final class table',
]
MIN_NONTRIVIAL = {'quick': 1500, 'thorough': 40000}
NSHARDS = 16
HARD_TIMEOUT = {'quick': 1500, 'thorough': 5 * 3600}
LANGS = ['kotlin', 'java', 'scala', 'groovy']


def shards(tier):
    out = []
    for k in range(NSHARDS):
        out.append({'k': k, 'lang': LANGS[k % 4], 'part': 'synthetic' if k < 8 else 'recorded'})
    return out


def effective_choice(rec, pn, idx, n):
    """(can_out, can_in) the caller allows for parameter pn, per the documented overrides."""
    vc = rec.get('vc')
    pecs, dvf, dv = rec.get('flags', (True, False, False))
    is_fun = rec.get('con', '').startswith('Function') and rec['con'][8:].isdigit()
    if pecs and is_fun:
        choice = (True, False) if idx == n - 1 else (False, True)
    elif vc is None:
        return (False, False)
    else:
        choice = tuple(vc.get(pn, (True, True)))
    if dv or (dvf and is_fun):
        choice = (False, False)
    usv_off, contra_off = rec.get('dis', (False, False))
    if usv_off:
        choice = (False, False)
    if contra_off:
        choice = (choice[0], False)
    return choice


def judge_inst(rec, table, col, origin, kind='inst'):
    """-> list of (signature, detail)"""
    R = rm.RM(table)
    out = []
    params = [tuple(tg.tuplify(p)) for p in rec['params']]
    m = {k: tg.tuplify(v) for k, v in rec['map'].items()}
    if kind == 'inst':
        args = [tg.tuplify(a) for a in rec['args']]
        if len(args) != len(params):
            out.append(('C08/P1-argument-count', {'params': len(params), 'args': len(args)}))
            return out
    else:
        args = [m.get(pn) for pn, pv, pb in params]
    for pn, pv, pb in params:
        if pn not in m:
            out.append(('C08/P1-map-not-total', {'missing': pn}))
    if any(a is None or a == ('unk',) for a in args):
        return out
    # assignments of enclosing declarations' variables (receiver type arguments) come with the request
    theta = {k: tg.tuplify(v) for k, v in rec.get('pre', {}).items() if v != ('unk',) and v != ['unk']}
    theta.update({pn: a for (pn, pv, pb), a in zip(params, args)})
    prims = rec.get('prim_args', [])
    if isinstance(prims, dict):
        prims = [prims.get(pn, False) for pn, pv, pb in params]
    n = len(params)
    for idx, ((pn, pv, pb), a) in enumerate(zip(params, args)):
        inner = a[2] if a[0] == 'p' else a
        # P3
        if idx < len(prims) and prims[idx]:
            out.append(('C08/P3-primitive-argument/' + origin, {'param': pn, 'arg': rm.show(a)}))
        if rm.has_kind(a, ('k',)):
            out.append(('C08/P3-uninstantiated-generic-class/' + origin, {'param': pn, 'arg': rm.show(a)}))
        # P2
        if pb is not None and a != rm.STAR and not (a[0] == 'p' and a[1] == 'in') and inner != rm.BOT:
            b = rm.subst(pb, theta)
            bb = b
            if rm.is_proj(b):
                bb = b[2] if b[0] == 'p' else None
            if bb is not None and not rm.has_kind(bb, ('unk',)):
                col.feature('P2_bounds_judged')
                if not R.sub(inner, bb):
                    shape = 'bound-is-variable' if pb[0] == 'v' else ('bound-mentions-variables' if rm.has_kind(pb, ('v',)) else 'ground-bound')
                    if _dependent_params(table, bb):
                        shape += '+bound-class-has-dependent-parameters'
                    out.append(('C08/P2-argument-outside-bound/%s/%s' % (shape, origin),
                                {'param': pn, 'arg': rm.show(a), 'bound': rm.show(b), 'declared_bound': rm.show(pb),
                                 'args': [rm.show(x) for x in args]}))
        # P4
        pre = rec.get('pre', {}).get(pn)
        if pre is not None and pre != ('unk',):
            pre = tg.tuplify(pre)
            kept = (a == pre) or (a[0] == 'p' and a[2] == pre) or (pre[0] == 'p' and a == pre[2]) or \
                   (pre[0] == 'p' and a[0] == 'p' and a[2] == pre[2])
            col.feature('P4_preassignments_judged')
            if not kept:
                # only when the request was consistent with the bound
                consistent = True
                if pb is not None:
                    b = rm.subst(pb, {k: tg.tuplify(v) for k, v in rec.get('pre', {}).items()})
                    pi = pre[2] if pre[0] == 'p' else pre
                    if not rm.is_proj(b) and not rm.has_kind(b, ('v',)) and pre != rm.STAR:
                        consistent = R.sub(pi, b)
                if consistent and kind == 'inst':
                    out.append(('C08/P4-requested-assignment-changed/' + origin,
                                {'param': pn, 'requested': rm.show(pre), 'got': rm.show(a)}))
        # P5
        if rm.is_proj(a) and kind == 'inst':
            col.feature('projections_produced')
            if pre is not None and rm.is_proj(tg.tuplify(pre)):
                continue          # the caller asked for this projection
            can_out, can_in = effective_choice(rec, pn, idx, n)
            mentioned = any(q != pn and qb is not None and pn in rm.free_vars(qb) for q, qv, qb in params)
            why = None
            if a == rm.STAR:
                why = None
            elif a[1] == 'out' and not can_out:
                why = 'covariant-projection-not-permitted'
            elif a[1] == 'in' and not can_in:
                why = 'contravariant-projection-not-permitted'
            elif (a[1] == 'out' and pv == 'in') or (a[1] == 'in' and pv == 'out'):
                why = 'projection-against-declared-variance'
            if mentioned and a != rm.STAR:
                why = 'projection-on-parameter-mentioned-in-another-bound'
            if why:
                usv_off, contra_off = rec.get('dis', (False, False))
                sw = 'switch-off' if (usv_off or (contra_off and a[1] == 'in')) else 'switches-on'
                out.append(('C08/P5-%s/%s/%s' % (why, sw, origin),
                            {'param': pn, 'arg': rm.show(a), 'variance_choices': rec.get('vc'), 'flags': rec.get('flags'),
                             'params': [(q, qv, rm.show(qb)) for q, qv, qb in params], 'args': [rm.show(x) for x in args]}))
        elif rm.is_proj(a) and kind == 'instf':
            out.append(('C08/P5-projection-in-function-type-arguments/' + origin, {'param': pn, 'arg': rm.show(a)}))
    return out


def _dependent_params(table, t):
    """t (or a component) instantiates a class one of whose parameters is bounded by another of its parameters."""
    if t is None or t[0] not in ('i', 'p'):
        return False
    if t[0] == 'p':
        return _dependent_params(table, t[2])
    info = table.cls.get(t[1])
    if info:
        names = {pn for pn, pv, pb in info['params']}
        if any(pb is not None and (rm.free_vars(pb) & names) for pn, pv, pb in info['params']):
            return True
    return any(_dependent_params(table, a) for a in t[2])


def nontrivial(rec):
    params = rec['params']
    return (len(params) >= 2 and any(p[2] is not None for p in params)) or bool(rec.get('pre')) or \
        any(rm.is_proj(tg.tuplify(a)) for a in rec.get('args', []) if a)


# ------------------------------------------------------------------ synthetic leg
@st.composite
def synthetic_case(draw, lang):
    u = draw(tg.universes(lang, max_classes=5))
    gens = u.generics()
    if not gens:
        u.add_class('G9', [('P0', 'inv', None), ('P1', 'inv', ('v', 'P0', None))])
        gens = u.generics()
    key = draw(st.sampled_from(gens))
    R = rm.RM(u.table)
    params = u.table.cls[key]['params']
    pool = list(u.ground_base())
    pool_kinds = draw(st.sets(st.sampled_from(['bare', 'prims', 'inst', 'decls', 'decls']), max_size=3))
    extra = []
    if 'inst' in pool_kinds:
        for _ in range(2):
            t = draw(tg.types(u, R, depth=1, force_generic=True, proj=False))
            if t is not None and R.wf(t):
                extra.append(t)
    pre = {}
    th = {}
    if draw(st.booleans()):
        for pn, pv, pb in params:
            if not draw(st.booleans()):
                continue
            b = rm.subst(pb, th) if pb is not None else None
            if b is not None and (rm.is_proj(b) or rm.has_kind(b, ('v',))):
                continue
            # (the implicit top type is left out of requests: the implementation does not treat classes
            #  without a declared supertype as subtypes of it, see C06's exact fragment)
            cands = [x for x in pool + extra if (b is None or R.sub(x, b)) and not R.is_top(x)]
            if not cands:
                continue
            x = draw(st.sampled_from(cands))
            pre[pn] = x
            th[pn] = x
    vc_kind = draw(st.sampled_from(['none', 'empty', 'flags', 'flags']))
    vc = None
    if vc_kind == 'empty':
        vc = {}
    elif vc_kind == 'flags':
        vc = {pn: (draw(st.booleans()), draw(st.booleans())) for pn, pv, pb in params if draw(st.booleans())}
    flags = (draw(st.booleans()), draw(st.integers(0, 5)) == 0, draw(st.integers(0, 5)) == 0)
    dis = (draw(st.integers(0, 3)) == 0, draw(st.integers(0, 3)) == 0)
    fun = draw(st.integers(0, 4)) == 0
    seed = draw(st.integers(0, 10 ** 6))
    return u, key, pool + extra, sorted(pool_kinds), pre, vc, flags, dis, fun, seed


def run_synthetic(spec, col, n):
    boot.init_types_only()
    from src import utils
    from src.ir import type_utils as tu
    from src.generators.config import cfg
    lang = spec['lang']
    rec = pgrec.Recorder(kinds=('inst', 'instf'))

    def one(case):
        u, key, pool, pool_kinds, pre, vc, flags, dis, fun, seed = case
        con = u.classes[key]
        types = [u.ir(t) for t in pool]
        if 'decls' in pool_kinds:
            # the generator's own calling convention: every class as its declaration (generic ones too), builtins as types
            types = [x for x in types if getattr(x, 'name', None) not in u.classes] + [u.decl(k) for k in u.order]
        if 'bare' in pool_kinds:
            types += [u.classes[k] for k in u.generics()]
        if 'prims' in pool_kinds:
            types += [ir for _, ir in u.primitives]
        tps = u.tparams[key]
        byname = {p.name: p for p in tps}
        pre_ir = {byname[pn]: u.ir(t) for pn, t in pre.items()}
        vc_ir = None if vc is None else {byname[pn]: v for pn, v in vc.items()}
        utils.random.r = random.Random(seed)
        old = (cfg.dis.use_site_variance, cfg.dis.use_site_contravariance)
        cfg.dis.use_site_variance, cfg.dis.use_site_contravariance = dis
        try:
            with rec.recording():
                if fun:
                    tu.instantiate_parameterized_function(tps, types, type_var_map=pre_ir)
                else:
                    tu.instantiate_type_constructor(con, types, type_var_map=pre_ir, variance_choices=vc_ir,
                                                    enable_pecs=flags[0], disable_variance_functions=flags[1],
                                                    disable_variance=flags[2])
        except RecursionError:
            col.feature('impl_exception:RecursionError')
        except AssertionError:
            col.feature('impl_assertion')
        except Exception as e:
            col.feature('impl_exception:' + type(e).__name__)
        finally:
            cfg.dis.use_site_variance, cfg.dis.use_site_contravariance = old
        got = rec.take()
        for kind in ('inst', 'instf'):
            for r in got['records'][kind]:
                table = u.table
                for k, v in got['table'].cls.items():
                    if k not in table.cls and v is not None:
                        table.cls[k] = v
                viols = judge_inst(r, table, col, 'synthetic', kind)
                col.case(key=('syn', u.spec(), kind, _j(r)), nontrivial=nontrivial(r),
                         sample=lambda r=r: {'origin': 'synthetic', 'table': u.describe(), 'helper': kind,
                                             'params': [(p[0], p[1], rm.show(tg.tuplify(p[2])) if p[2] else None) for p in r['params']],
                                             'pre': {k: rm.show(tg.tuplify(v)) for k, v in r.get('pre', {}).items()},
                                             'variance_choices': r.get('vc'),
                                             'result': [rm.show(tg.tuplify(a)) for a in r.get('args', [])] or
                                             {k: rm.show(tg.tuplify(v)) for k, v in r['map'].items()}})
                col.feature('calls_' + kind + '_synthetic')
                for sig, d in viols:
                    col.violation(sig, dict(d, table=u.describe()),
                                  {'origin': 'synthetic', 'universe': u.spec(), 'record': _j(r), 'kind': kind,
                                   'call': {'key': key, 'pool': _j(pool), 'pool_kinds': pool_kinds, 'pre': _j(pre), 'vc': vc,
                                            'flags': list(flags), 'dis': list(dis), 'fun': fun, 'seed': seed}},
                                  size=len(str(r)))
    hyp.explore(synthetic_case(lang), one, n, col.shard_seed('syn'))


def _j(x):
    import json
    return json.loads(json.dumps(x, default=str))


# ------------------------------------------------------------------ recorded leg
def run_recorded(spec, col, n_seed, n_tape):
    lang = spec['lang']
    boot.init(lang)
    rec = pgrec.Recorder(kinds=('inst', 'instf'))

    def judge_case(case):
        if case.program is None or not case.records:
            col.feature('discarded_no_program')
            return
        table = pgrec.final_table(case.program, case.records['table'])
        for kind in ('inst', 'instf'):
            for r in case.records['records'][kind]:
                viols = judge_inst(r, table, col, 'generator', kind)
                col.case(key=('rec', kind, _j(r)), nontrivial=nontrivial(r),
                         sample=lambda r=r: {'origin': 'generator', 'lang': lang, 'helper': kind,
                                             'params': [(p[0], p[1], rm.show(tg.tuplify(p[2])) if p[2] else None) for p in r['params']],
                                             'result': [rm.show(tg.tuplify(a)) for a in r.get('args', [])]})
                col.feature('calls_' + kind + '_generator')
                for sig, d in viols:
                    col.violation(sig, dict(d, lang=lang), dict(case.key(), origin='generator'),
                                  size=100000 + len(str(r)))

    def seed_case(x):
        seed, (sw, limits) = x
        judge_case(pg.gen_case(lang, 'seed', seed, sw, limits, recorder=rec))
    hyp.explore(st.tuples(st.integers(0, 2 ** 31 - 1), pg.config_strategy()), seed_case, n_seed, col.shard_seed('seed'))

    def tape_case(x):
        data, (sw, limits) = x
        judge_case(pg.gen_case(lang, 'tape', 0, sw, limits, data=data, budget=4000, recorder=rec))
    hyp.explore(st.tuples(st.data(), pg.config_strategy(small=True)), tape_case, n_tape, col.shard_seed('tape'))


def run_shard(spec, col):
    quick = col.tier == 'quick'
    if spec['part'] == 'synthetic':
        run_synthetic(spec, col, 500 if quick else 12000)
    else:
        run_recorded(spec, col, 24 if quick else 300, 30 if quick else 900)


def replay(case, col):
    if case.get('origin') == 'synthetic':
        boot.init_types_only()
        u = tg.universe_from_spec(case['universe'])
        table = u.table
        r = case['record']
        # re-execute the call
        from src import utils
        from src.ir import type_utils as tu
        from src.generators.config import cfg
        c = case['call']
        rec = pgrec.Recorder(kinds=('inst', 'instf'))
        types = [u.ir(tg.tuplify(t)) for t in c['pool']]
        if 'bare' in c['pool_kinds']:
            types += [u.classes[k] for k in u.generics()]
        if 'prims' in c['pool_kinds']:
            types += [ir for _, ir in u.primitives]
        tps = u.tparams[c['key']]
        byname = {p.name: p for p in tps}
        pre_ir = {byname[pn]: u.ir(tg.tuplify(t)) for pn, t in c['pre'].items()}
        vc_ir = None if c['vc'] is None else {byname[pn]: tuple(v) for pn, v in c['vc'].items()}
        utils.random.r = random.Random(c['seed'])
        old = (cfg.dis.use_site_variance, cfg.dis.use_site_contravariance)
        cfg.dis.use_site_variance, cfg.dis.use_site_contravariance = c['dis']
        try:
            with rec.recording():
                if c['fun']:
                    tu.instantiate_parameterized_function(tps, types, type_var_map=pre_ir)
                else:
                    tu.instantiate_type_constructor(u.classes[c['key']], types, type_var_map=pre_ir, variance_choices=vc_ir,
                                                    enable_pecs=c['flags'][0], disable_variance_functions=c['flags'][1],
                                                    disable_variance=c['flags'][2])
        except Exception:
            pass
        finally:
            cfg.dis.use_site_variance, cfg.dis.use_site_contravariance = old
        got = rec.take()
        for kind in ('inst', 'instf'):
            for r2 in got['records'][kind]:
                for k, v in got['table'].cls.items():
                    if k not in table.cls and v is not None:
                        table.cls[k] = v
                for sig, d in judge_inst(_j(r2), table, col, 'synthetic', kind):
                    col.violation(sig, d, case)
        return
    key = {k: v for k, v in case.items() if k != 'origin'}
    boot.init(key['lang'])
    rec = pgrec.Recorder(kinds=('inst', 'instf'))
    c = pg.regen(key, recorder=rec)
    if c.program is None:
        return
    table = pgrec.final_table(c.program, c.records['table'])
    for kind in ('inst', 'instf'):
        for r in c.records['records'][kind]:
            for sig, d in judge_inst(r, table, col, 'generator', kind):
                col.violation(sig, d, case)
