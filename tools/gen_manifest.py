#!/venv/bin/python
"""Regenerates MANIFEST.json from the table below (kept valid at all times)."""
import json
import os

ROOT = os.path.dirname(os.path.dirname(os.path.abspath(__file__)))

CHECKS = {
    'C06': dict(
        category='exploration',
        text=('impl.is_subtype / is_assignable compared with an independent declarative relation (RM: JLS 4.5.1 / Kotlin containment on '
              'intervals, declaration-site variance, capture conversion) on (a) every ordered pair of exhaustively enumerated type pools '
              'over fixed small class tables per language, (b) Hypothesis-generated class tables with pairs related by construction, '
              '(c) the queries the real generator issues. Soundness on all pairs, exactness + reflexivity + transitivity + bottom on the '
              'exact fragment.'),
        design_ref='DESIGN.md §3 C06, §2.3',
        note='Trusts RM (self-tested on algebraic laws and javac-confirmed facts); kotlinc/scalac/groovyc are not installed.',
        technique='differential testing against a reference subtyping model: exhaustive small tables + Hypothesis constructive pairs',
    ),
    'C16': dict(
        category='exploration',
        text=('Hypothesis RuleBasedStateMachine drives a real Context and an association-list reference model in lock step over histories of '
              'add/remove/overwrite/re-add on all five entity kinds and growing namespace trees; every query (current, path, glob, get_decl, '
              'reverse lookup) is compared after every step.'),
        design_ref='DESIGN.md §3 C16',
        note='Trusts the association-list model; order of path/glob results is not judged (the property is silent).',
        technique='stateful model-based testing (Hypothesis rule-based state machine) against a reference scoped map',
    ),
    'C19': dict(
        category='exploration',
        text=('Exhaustive enumeration of all digraphs with self-loops on <=4 labelled vertices (thorough; quick: all on <=3 plus a '
              'seeded slice of 10 000 of the 65 536 on 4) plus Hypothesis-drawn digraphs on 5..9 vertices; every query function on every '
              'vertex / ordered pair, compared with an independent closure / union-find / simple-path reference that is cross-checked '
              'against networkx in the same run. Non-termination is a deterministic step-budget verdict.'),
        design_ref='DESIGN.md §3 C19',
        note='Trusts the reference (40 lines, cross-checked with networkx each run) and the stated textbook definitions.',
        technique='exhaustive small-scope enumeration + Hypothesis random graphs against a reference model',
    ),
}

NOT_APPLICABLE = []
ALL = ['C%02d' % i for i in range(1, 20)]


def main():
    checks = []
    for pid in ALL:
        if pid not in CHECKS:
            continue
        c = CHECKS[pid]
        checks.append({
            'property_id': pid,
            'quick_cmd': './vcheck %s quick' % pid,
            'thorough_cmd': './vcheck %s thorough' % pid,
            'evidence_file': 'evidence/%s.json' % pid,
            'replay_cmd_template': './vcheck %s --replay {path}' % pid,
            'engine': c.get('engine', 'vlib/checks/%s.py' % pid.lower()),
            'level_claimed': {'category': c['category'], 'text': c['text'], 'design_ref': c['design_ref']},
            'level_note': c['note'],
            'technique': c['technique'],
        })
    na = list(NOT_APPLICABLE)
    listed = {c['property_id'] for c in checks} | {n['property_id'] for n in na}
    for pid in ALL:
        if pid not in listed:
            na.append({'property_id': pid,
                       'reason': 'check not built yet in this session (in progress per DESIGN.md §6 build order); not a statement that the technique cannot apply'})
    m = {
        'version': 1,
        'setup_cmd': './setup.sh',
        'hooks': {
            'guard': 'HEPHAESTUS_VERIF',
            'enable': ('no source hooks are needed: every check imports /repo\'s working tree in fresh subprocesses (env HEPHAESTUS_VERIF=1, '
                       'PYTHONHASHSEED=0) and instruments it from outside by wrapping module attributes; the guard variable is set for '
                       'completeness and is read by nothing in /repo'),
            'baseline_off_cmd': 'cd /repo && /venv/bin/python -m pytest -q -p no:cacheprovider tests',
            'source_commits': [],
            'add_only': True,
        },
        'engines': [
            {'name': 'runner', 'path': 'vlib/runner.py', 'serves_properties': [c['property_id'] for c in checks],
             'kind_free_text': 'shard fan-out (16 fresh subprocesses), merge, known-findings judgement, evidence and replay files'},
        ],
        'checks': checks,
        'not_applicable': na,
        'notes': 'All checks are property-based tests / fuzzers (Hypothesis, exhaustive enumeration, atheris in thorough tiers). See DESIGN.md.',
    }
    with open(os.path.join(ROOT, 'MANIFEST.json'), 'w') as f:
        json.dump(m, f, indent=1)
        f.write('\n')
    try:
        import jsonschema
        jsonschema.validate(m, json.load(open('/root/.vp/MANIFEST.schema.json')))
        print('MANIFEST.json valid;', len(checks), 'checks,', len(na), 'not_applicable')
    except ImportError:
        print('MANIFEST.json written (jsonschema not importable here)')


if __name__ == '__main__':
    main()
