"""Child of vlib/fuzz.py: one atheris campaign.  `python -m vlib.fuzz_child job.json`."""
import importlib
import json
import os
import sys
import time
import traceback


def main():
    with open(sys.argv[1]) as f:
        job = json.load(f)
    out = job['out']
    from vlib.collect import Collector
    col = Collector(job['pid'], job['tier'], job['vseed'], job['k'], job['n'])
    state = {'valid': 0, 'execs': 0, 'last': time.time(), 'sigs': 0}

    def dump(status='ok', error=None):
        res = col.result()
        res.update(status=status, error=error, valid_cases=state['valid'], executions=state['execs'])
        tmp = out + '.tmp'
        with open(tmp, 'w') as f:
            json.dump(res, f, default=str)
        os.replace(tmp, out)

    try:
        import atheris
        from vlib import boot
        boot.init_types_only()
        with atheris.instrument_imports(include=['src.ir'], enable_loader_override=False):
            import src.ir.types  # noqa: F401
            import src.ir.type_utils  # noqa: F401
            import src.ir.builtins  # noqa: F401
            import src.ir.java_types, src.ir.kotlin_types, src.ir.groovy_types, src.ir.scala_types  # noqa: F401,E401
        mod = importlib.import_module('vlib.checks.' + job['pid'].lower())
        strategy, one = mod.fuzz_entry(job['spec'], col)
        from hypothesis import given
        from vlib import hyp

        @hyp.make_settings(1)
        @given(strategy)
        def test(case):
            state['valid'] += 1
            one(case)
            n = len(col.violations)
            now = time.time()
            if state['valid'] >= job['runs']:
                dump()
                sys.stdout.flush()
                os._exit(0)
            if n != state['sigs'] or now - state['last'] > 30:
                state['sigs'], state['last'] = n, now
                dump()

        fuzz = test.hypothesis.fuzz_one_input

        def target(data):
            state['execs'] += 1
            try:
                fuzz(data)
            except Exception as e:      # the judging function records violations; an exception is a harness error
                dump('error', repr(e) + '\n' + traceback.format_exc()[-3000:])
                os._exit(1)
        dump()
        atheris.Setup([sys.argv[0], '-runs=%d' % (job['runs'] * 40), '-seed=%d' % job['seed'], '-max_len=16384',
                       '-len_control=0', '-verbosity=1', '-print_final_stats=1', '-report_slow_units=600', '-timeout=3600',
                       '-artifact_prefix=' + os.path.join(os.path.dirname(job['corpus']), 'artifact-'), job['corpus']], target)
        atheris.Fuzz()
        dump()
    except SystemExit:
        raise
    except BaseException as e:
        try:
            dump('error', repr(e) + '\n' + traceback.format_exc()[-3000:])
        except Exception:
            pass
    os._exit(0)


if __name__ == '__main__':
    main()
