"""Text scanners (TS): language-agnostic lexical helpers for the emitted
sources - literal stripping, bracket matching, name-anchored search."""
import re

OPEN = {'(': ')', '[': ']', '{': '}', '<': '>'}
CLOSE = {v: k for k, v in OPEN.items()}


def strip_literals(text, lang):
    """Replace the contents of string / char literals and comments by
    blanks of equal length; returns (stripped, [literal texts])."""
    out = []
    lits = []
    i, n = 0, len(text)
    while i < n:
        c = text[i]
        if c == '"':
            j = i + 1
            while j < n and text[j] != '"':
                j += 2 if text[j] == '\\' else 1
            lits.append(text[i:j + 1])
            out.append('"' + ' ' * max(0, j - i - 1) + '"')
            i = j + 1
            continue
        if c == "'" and i + 2 < n and (text[i + 2] == "'" or (text[i + 1] == '\\' and i + 3 < n and text[i + 3] == "'")):
            j = i + (3 if text[i + 1] == '\\' else 2)
            lits.append(text[i:j + 1])
            out.append("'" + ' ' * (j - i - 1) + "'")
            i = j + 1
            continue
        out.append(c)
        i += 1
    return ''.join(out), lits


def balanced(text):
    """Round/square/curly brackets balanced (angle brackets are operators too and are not checked)."""
    stack = []
    for i, c in enumerate(text):
        if c in '([{':
            stack.append((c, i))
        elif c in ')]}':
            if not stack or OPEN[stack[-1][0]] != c:
                return False, i
            stack.pop()
    return (not stack), (stack[-1][1] if stack else -1)


def match_close(text, i):
    """text[i] is an opening bracket; index of its partner (angle brackets: `->`, `=>`, ` > ` handled
    by skipping an arrow's `>`), or -1."""
    o = text[i]
    c = OPEN[o]
    depth = 0
    j = i
    n = len(text)
    while j < n:
        ch = text[j]
        if ch == o:
            depth += 1
        elif ch == c:
            if o == '<' and j > 0 and text[j - 1] in '-=':
                j += 1
                continue
            depth -= 1
            if depth == 0:
                return j
        elif o == '<' and ch in ';{}':
            return -1
        j += 1
    return -1


def split_top(s, sep=',', angle=True):
    """split at top-level separators (outside any brackets); angle=False: `<` `>` are not brackets (Scala)."""
    out, depth, cur = [], 0, []
    i = 0
    while i < len(s):
        ch = s[i]
        if ch in '([{' or (ch == '<' and angle):
            depth += 1
        elif ch in ')]}':
            depth -= 1
        elif ch == '>' and angle and not (i > 0 and s[i - 1] in '-='):
            depth -= 1
        if ch == sep and depth == 0:
            out.append(''.join(cur))
            cur = []
        else:
            cur.append(ch)
        i += 1
    if ''.join(cur).strip():
        out.append(''.join(cur))
    return [x.strip() for x in out]


def ident_re(name):
    return r'(?<![\w`$])`?' + re.escape(name) + r'`?(?![\w$])'


def find_all(pattern, text):
    return list(re.finditer(pattern, text))
