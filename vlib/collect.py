"""Per-shard accumulator of cases, features, samples and violations."""
import hashlib
import json


def key_of(obj):
    return hashlib.sha1(json.dumps(obj, sort_keys=True, default=str).encode()).hexdigest()[:16]


class Collector:
    def __init__(self, pid, tier, seed, k, n):
        self.pid, self.tier, self.seed, self.k, self.n = pid, tier, seed, k, n
        self.evaluations = 0
        self.nontrivial = set()
        self.samples = []
        self.features = {}
        self.extra = {}
        self.violations = {}     # signature -> smallest record
        self.max_samples = 3

    # -- derived seed for this shard
    def shard_seed(self, salt=0):
        h = hashlib.sha1(('%s/%s/%s/%s' % (self.pid, self.seed, self.k, salt)).encode()).hexdigest()
        return int(h[:12], 16)

    def case(self, key=None, nontrivial=False, sample=None):
        """Count one executed case; `key` identifies it for distinctness."""
        self.evaluations += 1
        if nontrivial and key is not None:
            k = key if isinstance(key, str) and len(key) <= 40 else key_of(key)
            new = k not in self.nontrivial
            self.nontrivial.add(k)
            if new and sample is not None and len(self.samples) < self.max_samples:
                self.samples.append(sample() if callable(sample) else sample)

    def feature(self, name, n=1):
        self.features[name] = self.features.get(name, 0) + n

    def set_extra(self, name, value):
        self.extra[name] = value

    def add_extra(self, name, n=1):
        self.extra[name] = self.extra.get(name, 0) + n

    def max_extra(self, name, v):
        self.extra[name] = max(self.extra.get(name, v), v)

    def violation(self, signature, detail, case, size=0):
        cur = self.violations.get(signature)
        if cur is None:
            self.violations[signature] = {'signature': signature, 'detail': detail,
                                          'case': case, 'size': size, 'count': 1}
        else:
            cur['count'] += 1
            if size < cur['size']:
                cur.update(detail=detail, case=case, size=size)

    def result(self):
        return {
            'evaluations': self.evaluations,
            'nontrivial': sorted(self.nontrivial),
            'samples': self.samples,
            'features': self.features,
            'extra': self.extra,
            'violations': list(self.violations.values()),
        }
