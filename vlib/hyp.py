"""Hypothesis plumbing shared by the checks.

`explore` runs a case function over a strategy without stopping at the first
failing case (violations are *collected* with a signature, so a shallow
known finding does not hide what lies behind it).  `minimize` then shrinks
one case per unlisted signature with Hypothesis' shrinker; the shrunk case
is what goes into the replay file."""
import random

import hypothesis
from hypothesis import HealthCheck, Phase, given, settings, strategies as st


def make_settings(max_examples, shrink=False, stateful_step_count=None):
    phases = [Phase.generate]
    if shrink:
        phases.append(Phase.shrink)
    kw = dict(max_examples=max_examples, deadline=None, database=None,
              report_multiple_bugs=False, phases=phases,
              suppress_health_check=[HealthCheck.too_slow, HealthCheck.data_too_large,
                                     HealthCheck.filter_too_much, HealthCheck.large_base_example],
              print_blob=False, derandomize=False)
    if stateful_step_count is not None:
        kw['stateful_step_count'] = stateful_step_count
    return settings(**kw)


flaky_events = []      # legs cut short because data generation depended on the history of the code under test


def explore(strategy, fn, max_examples, seed):
    """Run fn(case) on max_examples generated cases; fn must not raise for
    property violations (it records them).

    When the code under test draws from Hypothesis (tape mode) and its draws
    depend on state that leaks from earlier cases, Hypothesis stops the leg
    with FlakyStrategyDefinition.  That is not a harness error: the leg is cut
    short (counted in the evidence as `hypothesis_flaky_generation`), the
    other legs of the shard still run, and a shard with too few cases makes
    the whole check inconclusive as usual."""
    count = [0]

    @hypothesis.seed(seed)
    @make_settings(max_examples)
    @given(strategy)
    def run(case):
        count[0] += 1
        fn(case)
    try:
        run()
    except (hypothesis.errors.FlakyStrategyDefinition, hypothesis.errors.Flaky) as e:
        flaky_events.append('%s after %d cases' % (type(e).__name__, count[0]))
    return count[0]


def minimize(strategy, failing, seed, max_examples=2000):
    """Return a shrunk case for which failing(case) is true, or None.
    Uses the same seed as the exploration so the failing region is found
    again, then shrinks (bounded by Hypothesis' own caps)."""
    try:
        return hypothesis.find(
            strategy, failing, random=random.Random(seed),
            settings=settings(max_examples=max_examples, deadline=None, database=None,
                              suppress_health_check=list(HealthCheck),
                              phases=[Phase.generate, Phase.shrink]))
    except hypothesis.errors.NoSuchExample:
        return None
    except Exception:
        return None
