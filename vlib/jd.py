"""JD - a small javac driver with its own, line-based diagnostic parser.

Independent of src/compilers: the output is split into lines and every line
is classified on its own by *anchored* patterns (a diagnostic head starts at
column 0 with an absolute path, a stack frame starts with a TAB and `at `).
Used by C14 (and available to C15) as ground truth for real javac runs.
"""
import os
import re
import subprocess

HEAD = re.compile(r'^(?P<path>/[^\s:]+\.java):(?P<line>\d+): (?P<kind>error|warning): (?P<msg>.*)$')
FILELESS = re.compile(r'^(?P<kind>error|warning): (?P<msg>.*)$')
NOTE = re.compile(r'^Note: (?P<msg>.*)$')
SUMMARY = re.compile(r'^(?P<n>\d+) (?P<kind>error|warning)s?$')
FRAME = re.compile(r'^\tat [\w.$/<>-]+\(.*\)$')


def parse(output):
    """-> dict(errors=[{path,line,msg,extra}], warnings=[...], fileless=[...],
    notes=[...], summary={'error': n, 'warning': m}, frames=int).
    `extra` are the lines that follow a head up to the next head/note/summary
    (quoted source, caret, indented detail)."""
    res = {'errors': [], 'warnings': [], 'fileless': [], 'notes': [], 'summary': {}, 'frames': 0}
    cur = None
    for ln in output.split('\n'):
        m = HEAD.match(ln)
        if m:
            cur = {'path': m.group('path'), 'line': int(m.group('line')), 'msg': m.group('msg'), 'extra': []}
            res['errors' if m.group('kind') == 'error' else 'warnings'].append(cur)
            continue
        m = SUMMARY.match(ln)
        if m:
            res['summary'][m.group('kind')] = int(m.group('n'))
            cur = None
            continue
        m = NOTE.match(ln)
        if m:
            res['notes'].append(m.group('msg'))
            cur = None
            continue
        m = FILELESS.match(ln)
        if m:
            res['fileless'].append({'kind': m.group('kind'), 'msg': m.group('msg')})
            cur = None
            continue
        if FRAME.match(ln):
            res['frames'] += 1
            cur = None
            continue
        if cur is not None:
            cur['extra'].append(ln)
    return res


def crashed(parsed):
    return parsed['frames'] > 0


def errors_by_file(parsed):
    out = {}
    for e in parsed['errors']:
        out.setdefault(e['path'], []).append((e['line'], e['msg']))
    return out


def _scratch_cwd(argv):
    """A crashing javac drops `javac.<time>.args` into its working directory:
    run it inside the scratch directory its `-d` option points into."""
    argv = list(argv)
    if '-d' in argv[:-1]:
        d = os.path.dirname(argv[argv.index('-d') + 1].rstrip('/'))
        if os.path.isabs(d) and os.path.isdir(d):
            return d
    return None


def run_shell(argv, timeout=300, cwd=None):
    """Run a command line the way hephaestus.run_command does on POSIX:
    arguments joined by blanks, through the shell (so `*` is expanded),
    stderr folded into stdout.  -> (returncode, text)."""
    p = subprocess.run(' '.join(argv), shell=True, stdout=subprocess.PIPE, stderr=subprocess.STDOUT,
                       timeout=timeout, env=dict(os.environ), cwd=cwd or _scratch_cwd(argv))
    return p.returncode, p.stdout.decode('utf-8', 'replace')


# ---------------------------------------------------------------- many single-file compilations, one JVM
_DRIVER_SRC = r'''
import javax.tools.*; import java.io.*; import java.util.*;
public class JdAlone {
  public static void main(String[] a) throws Exception {
    JavaCompiler c = ToolProvider.getSystemJavaCompiler();
    List<String> flags = new ArrayList<>(); int i = 0;
    for (; i < a.length && !a[i].equals("--"); i++) flags.add(a[i]);
    String marker = a[++i]; i++;
    for (; i < a.length; i++) {
      List<String> args = new ArrayList<>(flags); args.add(a[i]);
      ByteArrayOutputStream o = new ByteArrayOutputStream();
      int rc = c.run(null, o, o, args.toArray(new String[0]));   // a fresh compilation per file
      System.out.println(marker + " BEGIN " + rc + " " + a[i]);
      System.out.write(o.toByteArray()); System.out.println();
      System.out.println(marker + " END");
      System.out.flush();
    }
  }
}
'''


def compile_each_alone(flags, paths, workdir, timeout=600):
    """Compile every file of `paths` in a compilation of its own (javac's
    programmatic entry point, same messages as the command line), all inside
    one JVM.  -> {path: (returncode, text)}.  Falls back to one `javac`
    process per file when the driver cannot be used."""
    marker = '@@JD%08x' % (abs(hash(tuple(paths))) & 0xffffffff)
    drv = os.path.join(workdir, 'JdAlone.java')
    res = {}
    try:
        with open(drv, 'w') as f:
            f.write(_DRIVER_SRC)
        p = subprocess.run(['java', '-XX:TieredStopAtLevel=1', '-XX:+UseSerialGC', drv] + list(flags) +
                           ['--', marker] + list(paths), stdout=subprocess.PIPE, stderr=subprocess.STDOUT,
                           timeout=timeout, cwd=workdir)
        text = p.stdout.decode('utf-8', 'replace')
        cur, buf = None, []
        for ln in text.split('\n'):
            if ln.startswith(marker + ' BEGIN '):
                _, _, rc, path = ln.split(' ', 3)
                cur, buf = (path, int(rc)), []
            elif ln == marker + ' END' and cur:
                body = '\n'.join(buf)
                res[cur[0]] = (cur[1], body)
                cur = None
            elif cur:
                buf.append(ln)
        if p.returncode != 0 or set(res) != set(paths):
            res = {}
    except (OSError, subprocess.SubprocessError, ValueError):
        res = {}
    finally:
        try:
            os.remove(drv)
        except OSError:
            pass
    if not res:
        for path in paths:
            res[path] = run_shell(['javac'] + list(flags) + [path], timeout=timeout, cwd=workdir)
    return res
