"""C09 — subtype search and irrelevant-type search return only what they promise.

Top-level calls of find_subtypes and find_irrelevant_type are recorded as
terms (a) while Hypothesis drives them over synthetic class tables (query type
x include_self x concrete_only x RNG; pools of ground types, bare generic
classes and instantiations) and (b) while the real generator and the real
TypeOverwriting mutation run.  Oracle (reference relation RM, which includes
the implicit top type):
  find_subtypes(T): every result is a subtype of T; no uninstantiated generic
  class when concrete types are requested; T itself is in the result exactly
  when include_self;
  find_irrelevant_type(T): a returned type is neither a subtype nor a
  supertype of T (type variable with a declared bound: of its bound); nothing
  is returned for the top type."""
import random

from hypothesis import strategies as st

from vlib import boot, hyp, pg, pgrec, rm, tg

LEVEL = 'exploration'
RULE = ('case = one top-level call of find_subtypes / find_irrelevant_type recorded as terms; synthetic: Hypothesis-drawn class '
        'tables x query types (depth <= 2, projections, bounded and variant parameters) x flags x RNG seed; recorded: every call '
        'during generation and during TypeOverwriting in 4 languages; non-trivial = the query type is generic or the result set has '
        '>= 2 elements; distinct = distinct record')
ASSUMPTIONS = [
    'an unbounded type variable (or one bounded by the top type) is judged as itself, one with a declared bound through its bound',
    'assignment conversions are not part of this property (see C04)',
]
MIN_NONTRIVIAL = {'quick': 1500, 'thorough': 40000}
NSHARDS = 16
HARD_TIMEOUT = {'quick': 1500, 'thorough': 5 * 3600}
LANGS = ['kotlin', 'java', 'scala', 'groovy']


def shards(tier):
    return [{'k': k, 'lang': LANGS[k % 4], 'part': 'synthetic' if k < 8 else 'recorded'} for k in range(NSHARDS)]


def shape(t):
    if t is None:
        return 'none'
    k = t[0]
    if k == 'v':
        return 'typevar' if t[2] is None else ('typevar-chain' if t[2][0] == 'v' else 'typevar-bounded')
    if k == 'p':
        return 'wildcard'
    return {'b': 'builtin', 'c': 'class', 'i': 'generic', 'k': 'bare-generic', 'top': 'top', 'bot': 'bottom', 'star': 'star'}.get(k, k)


def bound_of(t):
    n = 0
    while t is not None and t[0] == 'v' and n < 10:
        t = t[2] if t[2] is not None else rm.TOP
        n += 1
    return t


def dependent_params(table, t):
    if t is None or t[0] not in ('i', 'p'):
        return False
    if t[0] == 'p':
        return dependent_params(table, t[2])
    info = table.cls.get(t[1])
    if info:
        names = {pn for pn, pv, pb in info['params']}
        if any(pb is not None and (rm.free_vars(pb) & names) for pn, pv, pb in info['params']):
            return True
    return any(dependent_params(table, a) for a in t[2])


def contra_over_projection(table, t):
    """t has an argument in a contravariant position (declared `in` parameter or `in` projection) that itself
    contains a use-site projection."""
    if t is None or t[0] != 'i':
        return False
    info = table.cls.get(t[1])
    if not info:
        return False
    for (pn, pv, pb), a in zip(info['params'], t[2]):
        inner = a[2] if a[0] == 'p' else a
        contra = pv == 'in' or (a[0] == 'p' and a[1] == 'in')
        if contra and rm.has_kind(inner, ('p', 'star')):
            return True
        if contra_over_projection(table, inner):
            return True
    return False


def projected_receiver(table, x):
    if x is None or x[0] not in ('i', 'p'):
        return False
    if x[0] == 'p':
        return projected_receiver(table, x[2])
    info = table.cls.get(x[1])
    if info and info['supers']:
        for (pn, pv, pb), a in zip(info['params'], x[2]):
            if rm.is_proj(a) and any(pn in rm.free_vars(sup) for sup in info['supers']):
                return True
    return any(projected_receiver(table, a) for a in x[2])


def judge_subtypes(rec, table, origin):
    R = rm.RM(table)
    out = []
    e = tg.tuplify(rec['etype'])
    res = [tg.tuplify(r) for r in rec['result']]
    if e == ('unk',):
        return out
    if (e in res) != rec['include_self']:
        out.append(('C09/find_subtypes/include-self-not-honoured/%s/%s' % ('missing' if rec['include_self'] else 'present', origin),
                    {'etype': rm.show(e), 'include_self': rec['include_self'], 'result': [rm.show(r) for r in res][:6]}))
    for r in res:
        if r == ('unk',):
            continue
        if rec['concrete_only'] and rm.has_kind(r, ('k',)):
            out.append(('C09/find_subtypes/uninstantiated-generic-class/' + origin, {'etype': rm.show(e), 'result': rm.show(r)}))
            continue
        ee = e
        if not R.sub(r, ee):
            tags = [shape(e)]
            if dependent_params(table, e):
                tags.append('dependent-parameters')
            if projected_receiver(table, r) or projected_receiver(table, e):
                tags.append('projected-receiver')
            if contra_over_projection(table, e):
                tags.append('contravariant-position-over-projection')
            if rec.get('ignore_variance'):
                tags.append('ignore-variance')
            out.append(('C09/find_subtypes/not-a-subtype/%s/%s' % ('+'.join(tags), origin),
                        {'etype': rm.show(e), 'result': rm.show(r), 'flags': {k: rec[k] for k in ('include_self', 'concrete_only', 'ignore_variance')}}))
    return out


def judge_irrelevant(rec, table, origin):
    R = rm.RM(table)
    out = []
    e = tg.tuplify(rec['etype'])
    r = tg.tuplify(rec['result']) if rec['result'] is not None else None
    if e == ('unk',) or r == ('unk',):
        return out
    if R.is_top(e):
        if r is not None:
            out.append(('C09/find_irrelevant_type/result-for-top-type/' + origin, {'etype': rm.show(e), 'result': rm.show(r)}))
        return out
    if r is None:
        return out
    o, n = e, r
    # a declared top-level wildcard means its bound
    while o is not None and o[0] == 'p':
        o = o[2]
    ob = o
    if o is not None and o[0] == 'v':
        b = bound_of(o)
        ob = o if R.is_top(b) else b
    nb = n
    if n[0] == 'v':
        b = bound_of(n)
        nb = n if R.is_top(b) else b
    rel = None
    if ob == nb:
        rel = 'same-type'
    elif ob is not None and R.is_top(ob):
        rel = 'query-is-top-type'
    elif R.sub(nb, ob):
        rel = 'result-is-subtype'
    elif R.sub(ob, nb):
        rel = 'result-is-top-type' if R.is_top(nb) else 'result-is-supertype'
    if rel:
        sh = '%s%s->%s%s' % (shape(e), '-primitive' if rec.get('etype_prim') else '', shape(r),
                             '+top-argument' if (r[0] == 'i' and any(R.is_top(a[2] if a[0] == 'p' else a) for a in r[2] if a != rm.STAR)) else '')
        if rel in ('result-is-subtype', 'result-is-supertype'):
            # does the relation hold through declared supertypes alone, or only because every class is below the top type?
            R0 = rm.RM(table, implicit_top=False)
            if not (R0.sub(nb, ob) if rel == 'result-is-subtype' else R0.sub(ob, nb)):
                sh += '+via-implicit-top'
        out.append(('C09/find_irrelevant_type/%s/%s/%s' % (rel, sh, origin), {'etype': rm.show(e), 'result': rm.show(r)}))
    return out


def nontrivial(kind, rec):
    if kind == 'find_subtypes':
        return rec['etype'][0] == 'i' or len(rec['result']) >= 2
    return rec['result'] is not None


def account(col, got, table, origin, case_fn, sample_extra):
    for kind, judge in (('find_subtypes', judge_subtypes), ('irrelevant', judge_irrelevant)):
        for r in got['records'].get(kind, []):
            viols = judge(r, table, origin)
            col.case(key=(origin, kind, _j(r)), nontrivial=nontrivial(kind, r),
                     sample=lambda r=r, kind=kind: dict(sample_extra(), helper=kind, query=rm.show(tg.tuplify(r['etype'])),
                                                        result=[rm.show(tg.tuplify(x)) for x in r['result']][:6]
                                                        if kind == 'find_subtypes' else
                                                        (rm.show(tg.tuplify(r['result'])) if r['result'] else None)))
            col.feature('calls_%s_%s' % (kind, origin))
            for sig, d in viols:
                col.violation(sig, d, case_fn(r, kind), size=len(str(r)))


def _j(x):
    import json
    return json.loads(json.dumps(x, default=str))


@st.composite
def synthetic_case(draw, lang):
    u = draw(tg.universes(lang, max_classes=6))
    R = rm.RM(u.table)
    scope = {}
    if draw(st.integers(0, 4)) == 0:
        b = draw(tg.types(u, R, depth=1, proj=False))
        scope['Z'] = ('v', 'Z', b if (b is not None and draw(st.booleans())) else None)
    q = draw(tg.types(u, R, depth=draw(st.integers(0, 2)), scope=scope))
    if q is None or not R.wf(q):
        q = u.builtins[1][0]
    extra = []
    for _ in range(draw(st.integers(0, 3))):
        t = draw(tg.types(u, R, depth=1, force_generic=True, proj=False))
        if t is not None and R.wf(t):
            extra.append(t)
    which = draw(st.sampled_from(['sub', 'sub', 'irr', 'irr']))
    if which == 'irr' and draw(st.booleans()):
        # irrelevant-type queries on classes that inherit from an instantiation of a generic class (the candidates then
        # contain the parent's bare constructor, whose re-instantiation must avoid the parent's own arguments)
        heirs = [('c', k) for k in u.order if not u.table.cls[k]['params'] and u.table.cls[k]['supers'] and
                 u.table.cls[k]['supers'][0][0] == 'i']
        if heirs:
            q = draw(st.sampled_from(heirs))
    elif which == 'irr' and draw(st.integers(0, 3)) == 0:
        # a query related to an heir only through declaration-site variance: heir : G<A>, query G<A'> with A' above A
        # (covariant parameter) or below A (contravariant parameter)
        cands = []
        for k in u.order:
            for sup in u.table.cls[k]['supers']:
                if sup[0] != 'i' or rm.has_kind(sup, ('v', 'p', 'star')):
                    continue
                for j, ((pn, pv, pb), a) in enumerate(zip(u.table.cls[sup[1]]['params'], sup[2])):
                    if pv == 'inv':
                        continue
                    rel = [x for x in u.ground_base() if x != a and (R.sub(a, x) if pv == 'out' else R.sub(x, a))
                           and not R.is_top(x)]
                    for x in rel[:3]:
                        cand = ('i', sup[1], sup[2][:j] + (x,) + sup[2][j + 1:])
                        if R.wf(cand):
                            cands.append(cand)
        if cands:
            q = draw(st.sampled_from(cands))
    elif which == 'sub' and draw(st.integers(0, 3)) == 0:
        # a contravariant use-site projection whose bound has a proper subtype: G<in Bar> with Baz : Bar
        pairs = [(x, y) for x in u.ground_base() for y in u.ground_base() if x != y and R.sub(y, x) and not R.is_top(x)]
        gens = [k for k in u.generics() if any(pv == 'inv' and pb is None for pn, pv, pb in u.table.cls[k]['params'])]
        if pairs and gens:
            k = draw(st.sampled_from(gens))
            x, _ = draw(st.sampled_from(pairs))
            args = []
            used = False
            for pn, pv, pb in u.table.cls[k]['params']:
                if pv == 'inv' and pb is None and not used:
                    args.append(('p', 'in', x))
                    used = True
                else:
                    args.append(None)
            if all(a is not None for a in args):
                cand = ('i', k, tuple(args))
                if R.wf(cand):
                    q = cand
    elif which == 'irr' and draw(st.integers(0, 3)) == 0:
        # the query is a type variable whose bound is an instantiation (possibly with a use-site projection): the
        # result must be unrelated to the *bound*
        b = draw(tg.types(u, R, depth=draw(st.integers(1, 2)), force_generic=True, proj=True, star=False))
        if b is not None and b[0] == 'i' and R.wf(b):
            q = ('v', 'Z', b)
    return u, q, extra, which, draw(st.booleans()), draw(st.booleans()), draw(st.integers(0, 10 ** 6))


def exec_synthetic(u, q, extra, which, include_self, concrete_only, seed, rec):
    from src import utils
    from src.ir import type_utils as tu
    if seed % 3 == 0:
        # the generator's calling convention: classes as declarations (generic ones too), builtins as types
        types = [ir for _, ir in u.builtins] + [u.decl(k) for k in u.order]
    else:
        types = [u.ir(t) for t in u.ground_base()] + [u.classes[k] for k in u.generics()] + [u.ir(t) for t in extra]
    q_ir = u.ir(q)
    utils.random.r = random.Random(seed)
    with rec.recording():
        if which == 'sub':
            tu.find_subtypes(q_ir, types, include_self=include_self, concrete_only=concrete_only)
        else:
            for j in range(6):
                utils.random.r = random.Random(seed * 7 + j)
                tu.find_irrelevant_type(q_ir, types, u.factory)


def run_synthetic(spec, col, n):
    boot.init_types_only()
    lang = spec['lang']
    rec = pgrec.Recorder(kinds=('find_subtypes', 'irrelevant'))

    def one(case):
        u, q, extra, which, include_self, concrete_only, seed = case
        try:
            exec_synthetic(u, q, extra, which, include_self, concrete_only, seed, rec)
        except RecursionError:
            col.feature('impl_exception:RecursionError')
        except AssertionError:
            col.feature('impl_assertion')
        except Exception as e:
            col.feature('impl_exception:%s:%s' % (which, type(e).__name__))
        got = rec.take()
        table = u.table
        for k, v in got['table'].cls.items():
            if k not in table.cls and v is not None:
                table.cls[k] = v
        account(col, got, table, 'synthetic',
                lambda r, kind: {'origin': 'synthetic', 'universe': u.spec(), 'q': q, 'extra': extra, 'which': which,
                                 'include_self': include_self, 'concrete_only': concrete_only, 'seed': seed},
                lambda: {'origin': 'synthetic', 'table': u.describe()})
    hyp.explore(synthetic_case(lang), one, n, col.shard_seed('syn'))


def run_recorded(spec, col, n_seed, n_tape):
    lang = spec['lang']
    boot.init(lang)
    rec = pgrec.Recorder(kinds=('find_subtypes', 'irrelevant'))

    def judge_case(case):
        if case.program is None or not case.records:
            col.feature('discarded_no_program')
            return
        got = case.records
        # the mutation issues find_irrelevant_type queries
        try:
            boot._state['utils'].random.r = random.Random((case.seed or 7) + 5)
            prog = pg.clone(case.program)
            with rec.recording():
                pg.overwrite(prog, lang)
            got2 = rec.take()
            for k in got2['records']:
                got['records'][k] = got['records'].get(k, []) + got2['records'][k]
            for k, v in got2['table'].cls.items():
                if k not in got['table'].cls:
                    got['table'].cls[k] = v
        except Exception as e:
            col.feature('pipeline_exception(C18 territory):' + type(e).__name__)
        table = pgrec.final_table(case.program, got['table'])
        account(col, got, table, 'generator', lambda r, kind: dict(case.key(), origin='generator'),
                lambda: {'origin': 'generator+TypeOverwriting', 'lang': lang, 'seed': case.seed})

    def seed_case(x):
        seed, (sw, limits) = x
        judge_case(pg.gen_case(lang, 'seed', seed, sw, limits, recorder=rec))
    hyp.explore(st.tuples(st.integers(0, 2 ** 31 - 1), pg.config_strategy()), seed_case, n_seed, col.shard_seed('seed'))

    def tape_case(x):
        data, (sw, limits) = x
        judge_case(pg.gen_case(lang, 'tape', 0, sw, limits, data=data, budget=4000, recorder=rec))
    hyp.explore(st.tuples(st.data(), pg.config_strategy(small=True)), tape_case, n_tape, col.shard_seed('tape'))


def run_shard(spec, col):
    quick = col.tier == 'quick'
    if spec['part'] == 'synthetic':
        run_synthetic(spec, col, 1200 if quick else 20000)
    else:
        run_recorded(spec, col, 10 if quick else 300, 30 if quick else 900)


def replay(case, col):
    if case.get('origin') == 'synthetic':
        boot.init_types_only()
        u = tg.universe_from_spec(case['universe'])
        rec = pgrec.Recorder(kinds=('find_subtypes', 'irrelevant'))
        try:
            exec_synthetic(u, tg.tuplify(case['q']), [tg.tuplify(x) for x in case['extra']], case['which'],
                           case['include_self'], case['concrete_only'], case['seed'], rec)
        except Exception:
            pass
        got = rec.take()
        table = u.table
        for k, v in got['table'].cls.items():
            if k not in table.cls and v is not None:
                table.cls[k] = v
        account(col, got, table, 'synthetic', lambda r, kind: case, lambda: {})
        return
    key = {k: v for k, v in case.items() if k != 'origin'}
    boot.init(key['lang'])
    rec = pgrec.Recorder(kinds=('find_subtypes', 'irrelevant'))
    c = pg.regen(key, recorder=rec)
    if c.program is None:
        return
    got = c.records
    try:
        boot._state['utils'].random.r = random.Random((c.seed or 7) + 5)
        prog = pg.clone(c.program)
        with rec.recording():
            pg.overwrite(prog, key['lang'])
        got2 = rec.take()
        for k in got2['records']:
            got['records'][k] = got['records'].get(k, []) + got2['records'][k]
        for k, v in got2['table'].cls.items():
            if k not in got['table'].cls:
                got['table'].cls[k] = v
    except Exception:
        pass
    table = pgrec.final_table(c.program, got['table'])
    account(col, got, table, 'generator', lambda r, kind: case, lambda: {})
