"""C12 — translations are faithful to the program's declarations and annotations.

For programs at the stages generated (G), erased (E) and overwritten (O), in
their own language (4 languages across shards), an inventory computed from the
IR by an independent walker is compared with what name-anchored scanners find
in the emitted text:
 forward  every class / field / function / parameter / type parameter /
          variable is declared under its name with the class kind, the
          inheritance clause, variance markers and bounds and the
          override / abstract modifiers;
 backward every class declared in the text is a class of the program or
          translator scaffolding (Main, FunctionN);
 annotations (expressibility table in DESIGN.md): a declared variable type, a
          declared return type and explicit constructor / call type arguments
          are printed iff the program carries them, wherever the target
          language can express the omission;
 literals every string / char / integer / real / boolean literal and every
          binary operator of the program occurs in the text at least as often
          as in the program; brackets, quotes and blocks are balanced.
Identifiers come from a pool without replacement, so a declared name occurs
once as a declaration (overrides excepted), which makes name-anchored
scanning reliable."""
import re

from vlib import boot, pg, progcheck, ts

LEVEL = 'translation_validation'
RULE = ('case = (program, stage G/E/O) translated to its own language; non-trivial = stage E or O with >= 1 erased or overwritten '
        'annotation and >= 1 generic class; distinct = distinct emitted text; programs = texts scanned, disagreements_checked = '
        'inventory items compared')
ASSUMPTIONS = [
    'not carried => not printed is only demanded where the language can express the omission (Kotlin/Scala: everything; Groovy: '
    'def locals; Java: diamond) - Java/Groovy method return types and fields of Main cannot omit the type',
    'translator scaffolding is whitelisted: Main, FunctionN interfaces, x_N temporaries, <name>_is pattern variables, apply',
]
MIN_NONTRIVIAL = {'quick': 150, 'thorough': 4000}
NSHARDS = 16
HARD_TIMEOUT = {'quick': 1500, 'thorough': 5 * 3600}
CLASS_KW = {'kotlin': r'(class|interface)', 'scala': r'(class|trait)', 'java': r'(class|interface)', 'groovy': r'(class|interface)'}
TOPEN = {'kotlin': '<', 'java': '<', 'groovy': '<', 'scala': '['}


def shards(tier):
    return [{'k': k, 'lang': boot.LANGS[k % 4]} for k in range(NSHARDS)]


# ------------------------------------------------------------------ inventory
class Inventory:
    def __init__(self, program):
        from src.ir import ast
        self.ast = ast
        self.classes = []
        self.functions = []      # (decl, owner class or None, nested?)
        self.vars = []           # (decl, top_level?)
        self.news = []
        self.calls = []
        self.strings = []
        self.chars = []
        self.ints, self.reals, self.bools, self.ops = [], [], [], []
        self.lambdas = []
        seen = set()

        def walk(n, cls, depth, in_func):
            if n is None or id(n) in seen:
                return
            seen.add(id(n))
            if isinstance(n, ast.ClassDeclaration):
                self.classes.append(n)
                for f in n.functions:
                    walk(f, n, depth + 1, False)
                for s in n.superclasses:
                    for a in (s.args or []):
                        walk(a, n, depth + 1, in_func)
                return
            if isinstance(n, ast.FunctionDeclaration):
                self.functions.append((n, cls if not in_func else None, in_func))
                for p in n.params:
                    if p.default is not None:
                        walk(p.default, cls, depth + 1, True)
                walk(n.body, cls, depth + 1, True)
                return
            if isinstance(n, ast.VariableDeclaration):
                self.vars.append((n, not in_func and cls is None))
            elif isinstance(n, ast.New):
                self.news.append(n)
            elif isinstance(n, ast.FunctionCall):
                self.calls.append(n)
            elif isinstance(n, ast.IntegerConstant):
                self.ints.append(str(n.literal).lstrip('-'))
            elif isinstance(n, ast.RealConstant):
                self.reals.append(str(n.literal).lstrip('-'))
            elif isinstance(n, ast.BooleanConstant):
                self.bools.append(str(n.literal).lower())
            elif isinstance(n, ast.BinaryOp):
                self.ops.append(str(n.operator))
            elif isinstance(n, ast.StringConstant):
                self.strings.append(n.literal)
            elif isinstance(n, ast.CharConstant):
                self.chars.append(n.literal)
            elif isinstance(n, ast.Lambda):
                self.lambdas.append(n)
            try:
                ch = n.children()
            except Exception:
                ch = []
            for c in ch:
                walk(c, cls, depth + 1, in_func)
        for d in pg.top_decls(program):
            walk(d, None, 0, False)


def type_names(t, acc=None):
    """class names mentioned by an IR type (user classes and constructors)."""
    acc = set() if acc is None else acc
    if t is None:
        return acc
    n = type(t).__name__
    if n == 'WildCardType':
        type_names(t.bound, acc)
    elif n == 'TypeParameter':
        acc.add(t.name)
    elif hasattr(t, 'type_args'):
        if type(t.t_constructor).__name__ == 'TypeConstructor':
            acc.add(t.name)         # (builtin constructors - arrays, sequences, function types - have per-language spellings)
        for a in t.type_args:
            type_names(a, acc)
    elif 'Builtin' not in [c.__name__ for c in type(t).__mro__]:
        acc.add(t.name)
    return acc


def render(t, lang, top=True):
    """Independent rendering of an IR type in Kotlin / Scala syntax (None: not rendered for this language)."""
    if lang not in ('kotlin', 'scala') or t is None:
        return None
    n = type(t).__name__
    lb, rb = ('<', '>') if lang == 'kotlin' else ('[', ']')
    if n == 'WildCardType':
        if top:
            b = t
            k = 0
            while type(b).__name__ == 'WildCardType' and b.bound is not None and k < 5:
                b = b.bound
                k += 1
            return render(b, lang, True) if type(b).__name__ != 'WildCardType' else None
        if t.bound is None or t.variance.is_invariant():
            return '*' if lang == 'kotlin' else '?'
        inner = render(t.bound, lang, True)
        if inner is None:
            return None
        if lang == 'kotlin':
            return ('out ' if t.variance.is_covariant() else 'in ') + inner
        return ('? <: ' if t.variance.is_covariant() else '? >: ') + inner
    if n == 'TypeParameter':
        return t.name
    if hasattr(t, 'type_args') and hasattr(t, 't_constructor'):
        if lang == 'kotlin' and type(t.t_constructor).__name__ == 'SpecializedArrayType':
            e = render(t.type_args[0], lang, True)
            return None if e is None else e + 'Array'
        args = [render(a, lang, False) for a in t.type_args]
        if any(a is None for a in args):
            return None
        return '%s%s%s%s' % (t.name, lb, ', '.join(args), rb)
    return getattr(t, 'name', None)


def same_text(a, b):
    return re.sub(r'\s+', '', a or '') == re.sub(r'\s+', '', b or '')


# ------------------------------------------------------------------ scanning
class Scan:
    def __init__(self, text, lang):
        self.lang = lang
        self.raw = text
        self.text, self.lits = ts.strip_literals(text, lang)

    def class_header(self, name):
        """(keyword, header text up to the body / next declaration, modifiers before keyword) or None"""
        m = re.search(r'^([ \t]*)((?:[a-z]+[ \t]+)*)' + CLASS_KW[self.lang] + r'[ \t]+' + ts.ident_re(name),
                      self.text, re.M)
        if not m:
            return None
        i = m.end()
        # header ends at the first top-level '{' or at a blank line
        depth = 0
        j = i
        n = len(self.text)
        while j < n:
            ch = self.text[j]
            if ch in '([':
                depth += 1
            elif ch in ')]':
                depth -= 1
            elif ch == '{' and depth == 0:
                break
            elif ch == '\n' and depth == 0 and (j + 1 >= n or self.text[j + 1] == '\n'):
                break
            j += 1
        return m.group(3), self.text[i:j], m.group(2).split(), i

    def class_body(self, name):
        """(start, end) of the text region of class `name` (header start .. closing brace or header end)"""
        h = self.class_header(name)
        if h is None:
            return None
        kw, header, mods, pos = h
        end = pos + len(header)
        if end < len(self.text) and self.text[end] == '{':
            k = ts.match_close(self.text, end)
            if k > 0:
                return pos, k
        return pos, end

    def bracket_after(self, pos, open_ch):
        """content of a bracket group that starts right at pos (after optional blanks), and the index after it"""
        j = pos
        while j < len(self.text) and self.text[j] in ' \t':
            j += 1
        if j < len(self.text) and self.text[j] == open_ch:
            k = ts.match_close(self.text, j)
            if k > 0:
                return self.text[j + 1:k], k + 1
        return None, j


def judge_text(program, text, lang, stage, col):
    """-> list of (rule, detail)"""
    out = []
    inv = Inventory(program)
    sc = Scan(text, lang)
    T = sc.text
    items = [0]

    def bad(rule, **d):
        out.append(('C12/%s/%s' % (lang, rule), d))

    def item():
        items[0] += 1

    # balance
    ok, at = ts.balanced(T)
    item()
    if not ok:
        bad('unbalanced-brackets', at=at, around=T[max(0, at - 60):at + 40])
    if sc.raw.count('"') % 2:
        bad('unbalanced-quotes')
    ast = inv.ast
    topen = TOPEN[lang]
    # ---------------- classes
    declared = re.findall(r'^[ \t]*(?:[a-z]+[ \t]+)*' + CLASS_KW[lang] + r'[ \t]+`?(\w+)`?', T, re.M)
    names_text = [n for _, n in declared]
    known = {c.name for c in inv.classes}
    for n in names_text:
        item()
        if n not in known and n != 'Main' and not re.fullmatch(r'Function\d+', n):
            bad('backward/undeclared-class-in-text', name=n)
    for c in inv.classes:
        item()
        h = sc.class_header(c.name)
        if h is None:
            bad('forward/class-missing', name=c.name)
            continue
        if names_text.count(c.name) != 1:
            bad('forward/class-declared-more-than-once', name=c.name, times=names_text.count(c.name))
        kw, header, mods, pos = h
        want_kw = {'kotlin': 'interface', 'scala': 'trait', 'java': 'interface', 'groovy': 'interface'}[lang] if c.is_interface() else 'class'
        if kw != want_kw:
            bad('forward/class-kind', name=c.name, printed=kw, want=want_kw)
        if ('abstract' in mods) != c.is_abstract():
            bad('forward/class-abstract-modifier', name=c.name, printed=mods, abstract=c.is_abstract())
        if c.is_regular():
            if lang in ('java', 'groovy') and ('final' in mods) != bool(c.is_final):
                bad('forward/class-final-modifier', name=c.name, printed=mods, final=c.is_final)
            if lang == 'kotlin' and ('open' in mods) == bool(c.is_final):
                bad('forward/class-open-modifier', name=c.name, printed=mods, final=c.is_final)
        # type parameters
        tp_text, after = sc.bracket_after(pos, topen)
        if c.type_parameters:
            item()
            if tp_text is None:
                bad('forward/type-parameters-missing', name=c.name)
            else:
                parts = ts.split_top(tp_text, angle=lang != 'scala')
                if len(parts) != len(c.type_parameters):
                    bad('forward/type-parameter-count', name=c.name, printed=parts, want=[p.name for p in c.type_parameters])
                else:
                    for part, p in zip(parts, c.type_parameters):
                        check_type_param(lang, c.name, part, p, bad, item)
        elif tp_text is not None and lang != 'scala':
            bad('forward/type-parameters-printed-for-non-generic-class', name=c.name, printed=tp_text)
        # supertypes clause
        for s in c.superclasses:
            item()
            rest = T[after:pos + len(header)]
            if not re.search(ts.ident_re(s.class_type.name), rest):
                bad('forward/supertype-missing', name=c.name, supertype=s.class_type.name, header=header[:200])
        # fields
        body_start = pos + len(header)
        for f in c.fields:
            item()
            if lang in ('kotlin', 'scala'):
                m = re.search(r'\b(val|var)[ \t]+' + ts.ident_re(f.name) + r'[ \t]*:', header)
                if not m:
                    bad('forward/field-missing', cls=c.name, field=f.name, header=header[:200])
                elif (m.group(1) == 'val') != bool(f.is_final):
                    bad('forward/field-finality', cls=c.name, field=f.name, printed=m.group(1), final=f.is_final)
                want = render(f.get_type(), lang)
                if m and want is not None:
                    item()
                    flat = re.sub(r'\s+', '', header).replace('`', '')
                    if re.sub(r'\s+', '', '%s:%s' % (f.name, want)) not in flat:
                        bad('forward/field-type-text-differs', cls=c.name, field=f.name, want=want[:120],
                            printed=header[m.start():m.start() + 120])
                if m and lang == 'kotlin':
                    pre = header[max(0, m.start() - 30):m.start()]
                    if bool(re.search(r'override[ \t]+$', pre) or re.search(r'override[ \t]+(open[ \t]+)?$', pre)) != bool(f.override):
                        bad('forward/field-override-modifier', cls=c.name, field=f.name, printed=pre[-20:], override=f.override)
            else:
                m = re.search(r'^[ \t]*(?:public[ \t]+)?(final[ \t]+)?[^\n;=()]*?[ \t>\]]' + ts.ident_re(f.name) + r'[ \t]*;?[ \t]*$',
                              T[body_start:], re.M)
                if not m:
                    if not f.override:
                        bad('forward/field-missing', cls=c.name, field=f.name)
                elif bool(m.group(1)) != bool(f.is_final):
                    bad('forward/field-finality', cls=c.name, field=f.name, printed=m.group(0).strip()[:80], final=f.is_final)
    # ---------------- functions
    for f, cls, nested in inv.functions:
        if f.name == 'main' and cls is None:
            continue
        item()
        region = sc.class_body(cls.name) if cls is not None else None
        fm = find_function(sc, lang, f, region)
        if fm is None:
            bad('forward/function-missing', name=f.name, cls=cls.name if cls else None)
            continue
        mods, params_text, after = fm
        if '<closure>' in mods and lang == 'groovy':
            item()
            is_def = '<def>' in mods
            is_void = f.ret_type is not None and type(f.ret_type).__name__ in ('VoidType', 'UnitType')
            if not is_void and is_def != (f.ret_type is None):
                bad('annotation/return-type-%s' % ('carried-but-not-printed' if is_def else 'printed-but-not-carried'),
                    function=f.name, closure=True)
        if lang in ('kotlin', 'scala') and cls is not None and ('override' in mods) != bool(f.override):
            bad('forward/function-override-modifier', name=f.name, printed=mods, override=f.override)
        if lang in ('kotlin', 'java') and cls is not None and not cls.is_interface() and ('abstract' in mods) != (f.body is None):
            bad('forward/function-abstract-modifier', name=f.name, printed=mods, has_body=f.body is not None)
        # parameters: names must occur in order; the text between two names is the parameter's own text
        # (default values may contain commas, comparison operators and nested closures, so no splitting)
        posn = []
        cur = 0
        ok_order = True
        for p in f.params:
            m = re.compile(ts.ident_re(p.name)).search(params_text, cur)
            if not m:
                ok_order = False
                bad('forward/parameter-missing-or-out-of-order', function=f.name, want=[q.name for q in f.params],
                    printed=params_text[:160])
                break
            posn.append((m.start(), m.end()))
            cur = m.end()
        if ok_order:
            if not f.params and params_text.strip() and '<closure>' not in mods:
                bad('forward/parameter-printed-but-not-in-program', function=f.name, printed=params_text[:100])
            for i, p in enumerate(f.params):
                item()
                lo = posn[i - 1][1] if i else 0
                hi = posn[i + 1][0] if i + 1 < len(posn) else len(params_text)
                if lang in ('kotlin', 'scala'):
                    part = params_text[posn[i][0]:hi]         # name: Type [= default]
                    part = part.split('=')[0] if '=' in part else part
                else:
                    part = params_text[lo:posn[i][1]]         # Type name
                    part = part.rsplit(',', 1)[-1] if (i and ',' in part and '<' not in part.rsplit(',', 1)[-1] and '>' in part.rsplit(',', 1)[-1]) else part
                tn = type_names(p.get_type()) if '<lambda>' not in mods else set()
                seg = params_text[lo:hi]
                missing = [n for n in tn if not re.search(ts.ident_re(n), seg)]
                if missing:
                    bad('forward/parameter-type-mentions', function=f.name, param=p.name, printed=seg[:100], missing=missing)
                want = render(p.get_type(), lang) if not p.vararg else None
                if want is not None:
                    item()
                    flat = re.sub(r'\s+', '', seg)
                    if re.sub(r'\s+', '', '%s:%s' % (p.name, want)) not in flat.replace('`', ''):
                        bad('forward/parameter-type-text-differs', function=f.name, param=p.name, printed=seg.strip()[:120],
                            want=want[:120])
                if p.vararg and '<lambda>' not in mods and not re.search(
                        {'kotlin': r'\bvararg\b', 'java': r'\.\.\.', 'groovy': r'\.\.\.', 'scala': r'\*'}[lang], seg):
                    bad('forward/vararg-marker', function=f.name, param=p.name, printed=seg[:80])
        # return type annotation
        if lang in ('kotlin', 'scala') and f.body is not None:
            item()
            rest = T[after:after + 400].lstrip(' \t')
            printed = rest.startswith(':')
            if printed != (f.ret_type is not None):
                bad('annotation/return-type-%s' % ('printed-but-not-carried' if printed else 'carried-but-not-printed'),
                    function=f.name, text=rest[:60])
            elif printed:
                ann = rest[1:].split('=')[0].split('{')[0]
                missing = [n for n in type_names(f.ret_type) if not re.search(ts.ident_re(n), ann)]
                if missing:
                    bad('annotation/return-type-mentions', function=f.name, printed=ann[:80], missing=missing)
                want = render(f.ret_type, lang)
                if want is not None and len(rest) < 400 or (want is not None and ('=' in rest[:400] or '{' in rest[:400])):
                    item()
                    if not same_text(ann, want):
                        bad('annotation/return-type-text-differs', function=f.name, printed=ann.strip()[:120], want=want[:120])
    # ---------------- variables
    for v, top in inv.vars:
        item()
        if lang in ('kotlin', 'scala'):
            ms = list(re.finditer(r'\b(val|var)[ \t]+' + ts.ident_re(v.name) + r'[ \t]*(:)?', T))
            ms = [m for m in ms if not _in_class_header(T, m.start())]
            if not ms:
                bad('forward/variable-missing', name=v.name)
                continue
            m = ms[0]
            if (m.group(1) == 'val') != bool(v.is_final):
                bad('forward/variable-finality', name=v.name, printed=m.group(1), final=v.is_final)
            printed = m.group(2) is not None
            if printed != (v.var_type is not None):
                bad('annotation/variable-type-%s' % ('printed-but-not-carried' if printed else 'carried-but-not-printed'),
                    name=v.name, text=T[m.start():m.end() + 40])
            elif printed:
                ann = T[m.end():m.end() + 400].split('=')[0]
                missing = [n for n in type_names(v.var_type) if not re.search(ts.ident_re(n), ann)]
                if missing:
                    bad('annotation/variable-type-mentions', name=v.name, printed=ann[:80], missing=missing)
                want = render(v.var_type, lang)
                if want is not None and '=' in T[m.end():m.end() + 400]:
                    item()
                    if not same_text(ann, want):
                        bad('annotation/variable-type-text-differs', name=v.name, printed=ann.strip()[:120], want=want[:120])
        else:
            m = re.search(r'([^\n;{}()=]*?)' + ts.ident_re(v.name) + r'[ \t]*=(?!=)', T)
            if not m:
                bad('forward/variable-missing', name=v.name)
                continue
            decl = m.group(1).strip()
            if not decl:
                continue    # an assignment found first; cannot anchor
            if lang == 'groovy' and not top:
                is_def = bool(re.search(r'\bdef$', decl))
                if is_def != (v.var_type is None):
                    bad('annotation/variable-type-%s' % ('carried-but-not-printed' if is_def else 'printed-but-not-carried'),
                        name=v.name, text=decl[-60:])
            if v.var_type is not None:
                missing = [n for n in type_names(v.var_type) if not re.search(ts.ident_re(n), decl)]
                if missing:
                    bad('annotation/variable-type-mentions', name=v.name, printed=decl[-80:], missing=missing)
    # ---------------- constructor type arguments
    generic = {c.name: c for c in inv.classes if c.type_parameters}
    cnt = {}
    for n in inv.news:
        ct = n.class_type
        if getattr(ct, 'name', None) in generic and hasattr(ct, 'type_args'):
            k = (ct.name, bool(getattr(ct, 'can_infer_type_args', False)))
            cnt[k] = cnt.get(k, 0) + 1
    for name, c in generic.items():
        item()
        omitted, explicit = count_constructor_calls(sc, lang, name, c)
        want_o, want_e = cnt.get((name, True), 0), cnt.get((name, False), 0)
        sup_e = sum(1 for cc in inv.classes for s in cc.superclasses
                    if s.class_type.name == name and s.args is not None) if lang in ('kotlin', 'scala') else 0
        if omitted != want_o or explicit != want_e + sup_e:
            rule = 'annotation/constructor-type-arguments-%s' % (
                'printed-but-inferable' if omitted < want_o else
                ('omitted-but-carried' if omitted > want_o else 'count-differs'))
            bad(rule, cls=name, omitted_in_text=omitted, explicit_in_text=explicit, inferable_in_program=want_o,
                explicit_in_program=want_e, super_calls=sup_e)
    # the text of explicit constructor type arguments (Kotlin / Scala renderer): every `Name<args>(` the program carries
    # occurs at least as often in the text (superclass constructor calls and annotations only add occurrences)
    if lang in ('kotlin', 'scala'):
        want_txt = {}
        for n in inv.news:
            ct = n.class_type
            if getattr(ct, 'name', None) in generic and hasattr(ct, 'type_args') and not getattr(ct, 'can_infer_type_args', False):
                r = render(ct, lang)
                if r is not None:
                    key = re.sub(r'\s+', '', r) + '('
                    want_txt[key] = want_txt.get(key, 0) + 1
        if want_txt:
            flat = re.sub(r'\s+', '', T)
            for key, k in sorted(want_txt.items()):
                item()
                if flat.count(key) < k:
                    bad('annotation/constructor-type-arguments-text', expected=key, carried=k, printed=flat.count(key))
    # ---------------- generic call type arguments
    if lang in ('kotlin', 'scala'):
        gfun = {f.name for f, _, _ in inv.functions if f.type_parameters}
        cc = {}
        for call in inv.calls:
            if call.func in gfun and call.type_args and not call.is_ref_call:
                k = (call.func, bool(call.can_infer_type_args))
                cc[k] = cc.get(k, 0) + 1
        for name in gfun:
            item()
            with_args = len(re.findall(ts.ident_re(name) + re.escape(topen), T))
            decl_forms = len(re.findall(r'\b(?:fun|def)[ \t]+(?:<[^>]*>[ \t]*)?' + ts.ident_re(name) + re.escape(topen), T))
            with_args -= decl_forms
            want = cc.get((name, False), 0)
            if with_args != want:
                bad('annotation/call-type-arguments-%s' % ('omitted-but-carried' if with_args < want else 'printed-but-inferable'),
                    function=name, printed=with_args, carried_explicit=want, inferable=cc.get((name, True), 0))
    if lang in ('java', 'groovy'):
        gfun = {f.name for f, _, _ in inv.functions if f.type_parameters}
        cc = {}
        for call in inv.calls:
            if call.func in gfun and call.type_args and not call.is_ref_call and not call.can_infer_type_args:
                cc[call.func] = cc.get(call.func, 0) + 1
        for name, want in cc.items():
            item()
            printed = len(re.findall(r'\.[ \t]*<[^;\n]*?>[ \t]*' + ts.ident_re(name) + r'[ \t]*\(', T))
            if printed < want:
                bad('annotation/call-type-arguments-omitted-but-carried', function=name, printed=printed, carried_explicit=want)
    if lang == 'java':
        n_erased = 0
        for v, top in inv.vars:
            if v.var_type is None and not top:
                item()
                m = re.search(r'([^\n;{}()=]*?)' + ts.ident_re(v.name) + r'[ \t]*=(?!=)', T)
                if m and m.group(1).strip() and not re.search(r'\bvar$', m.group(1).strip()):
                    n_erased += 1
        if n_erased:
            bad('annotation/variable-type-printed-but-not-carried', erased_locals_printed_with_type=n_erased)
    # ---------------- literals
    from collections import Counter
    lit_text = Counter(sc.lits)
    for s, k in Counter(inv.strings).items():
        item()
        if lit_text.get('"%s"' % s, 0) < k:
            bad('literal/string-missing', literal=s, want=k, found=lit_text.get('"%s"' % s, 0))
    for s, k in Counter(inv.chars).items():
        item()
        if lit_text.get("'%s'" % s, 0) < k:
            bad('literal/char-missing', literal=s, want=k, found=lit_text.get("'%s'" % s, 0))
    num_text = Counter(re.findall(r'(?<![\w.])\d+(?:\.\d+)?', text))
    for kind, lst in (('integer', inv.ints), ('real', inv.reals)):
        for s, k in Counter(lst).items():
            item()
            if num_text.get(s, 0) < k:
                bad('literal/%s-missing' % kind, literal=s, want=k, found=num_text.get(s, 0))
    for s, k in Counter(inv.bools).items():
        item()
        found = len(re.findall(r'\b%s\b' % s, T))
        if found < k:
            bad('literal/boolean-missing', literal=s, want=k, found=found)
    for s, k in Counter(inv.ops).items():
        item()
        found = T.count(s)
        if found < k:
            bad('operator-missing', operator=s, want=k, found=found)
    return out, items[0], inv


def _in_class_header(T, pos):
    """is position inside the parenthesised primary constructor of a class header (kotlin/scala)?"""
    ls = T.rfind('\n', 0, pos) + 1
    line = T[ls:pos]
    return bool(re.search(r'\b(class|trait|interface)\b', line))


def check_type_param(lang, cname, part, p, bad, item):
    item()
    if not re.search(ts.ident_re(p.name), part):
        bad('forward/type-parameter-name', cls=cname, printed=part, want=p.name)
        return
    v = p.variance
    if lang == 'kotlin':
        want = 'out' if v.is_covariant() else ('in' if v.is_contravariant() else None)
        got = 'out' if re.match(r'\s*out\b', part) else ('in' if re.match(r'\s*in\b', part) else None)
    elif lang == 'scala':
        want = '+' if v.is_covariant() else ('-' if v.is_contravariant() else None)
        got = '+' if part.strip().startswith('+') else ('-' if part.strip().startswith('-') else None)
    else:
        want = got = None
    if want != got:
        bad('forward/type-parameter-variance', cls=cname, printed=part, want=want)
    sep = {'kotlin': ':', 'scala': '<:', 'java': 'extends', 'groovy': 'extends'}[lang]
    has = sep in part
    if p.bound is not None:
        if not has:
            bad('forward/type-parameter-bound-missing', cls=cname, printed=part, bound=str(p.bound))
        else:
            btxt = part.split(sep, 1)[1]
            missing = [n for n in type_names(p.bound) if not re.search(ts.ident_re(n), btxt)]
            if missing:
                bad('forward/type-parameter-bound-mentions', cls=cname, printed=part, missing=missing)
    elif has and lang in ('java', 'groovy'):
        bad('forward/type-parameter-bound-printed-but-not-carried', cls=cname, printed=part)


def find_function(sc, lang, f, region=None):
    """-> (modifiers, parameter list text, index after ')') of the declaration of f, or None.
    region: (start, end) of the owning class (overrides share their name with the overridden member)."""
    T = sc.text
    base = 0
    if region is not None:
        base = region[0]
        T = T[region[0]:region[1] + 1]
    name = ts.ident_re(f.name)
    if lang == 'kotlin':
        pat = r'^([ \t]*(?:[a-z]+[ \t]+)*)fun[ \t]+(?:<[^\n]*?>[ \t]*)?' + name + r'[ \t]*\('
    elif lang == 'scala':
        pat = r'^([ \t]*(?:[a-z]+[ \t]+)*)def[ \t]+' + name + r'[ \t]*(?:\[[^\n]*?\])?[ \t]*\('
    else:
        pat = r'^([ \t]*(?:(?:static|public|final|abstract|private|default)[ \t]+)*)(?:<[^\n]*?>[ \t]*)?\w[\w.<>\[\], ?&]*?[ \t]+' + name + r'[ \t]*\('
    for m in re.finditer(pat, T, re.M):
        op = m.end() - 1
        cl = ts.match_close(T, op)
        if cl < 0:
            continue
        if lang in ('java', 'groovy'):
            # a declaration, not a statement like `return name(...)`
            head = m.group(0)
            if re.search(r'\b(return|new|throw)\b', head):
                continue
        return m.group(1).split(), T[op + 1:cl], base + cl + 1
    if lang == 'groovy':
        # nested functions are closures: def name = { params -> ... }
        m = re.search(r'(def|Closure[^\n=]*?)[ \t]+' + name + r'[ \t]*=[ \t]*\{', T)
        if m:
            # parameter list = text up to the first `->` that is not nested in brackets
            j, depth = m.end(), 0
            while j < len(T) - 1:
                ch = T[j]
                if ch in '([{':
                    depth += 1
                elif ch in ')]}':
                    depth -= 1
                    if depth < 0:
                        break
                elif ch == '-' and T[j + 1] == '>' and depth == 0:
                    return ['<closure>'] + (['<def>'] if m.group(1) == 'def' else []), T[m.end():j], base + j + 2
                j += 1
    if lang == 'java':
        m = re.search(r'[\w.<>\[\], ?]+[ \t]+' + name + r'[ \t]*=[ \t]*\(([^\n]*?)\)[ \t]*->', T)
        if m:
            return ['<lambda>'], m.group(1), base + m.end()
    return None


def count_constructor_calls(sc, lang, name, cdecl):
    """-> (calls without type arguments / diamond, calls with explicit type arguments) of generic class `name`"""
    T = sc.text
    omitted = explicit = 0
    if lang in ('java', 'groovy'):
        for m in re.finditer(r'\bnew[ \t]+' + ts.ident_re(name) + r'[ \t]*<', T):
            j = m.end() - 1
            k = ts.match_close(T, j)
            if k < 0:
                continue
            inner = T[j + 1:k].strip()
            if inner == '':
                omitted += 1
            else:
                explicit += 1
        omitted += len(re.findall(r'\bnew[ \t]+' + ts.ident_re(name) + r'[ \t]*\(', T))
        return omitted, explicit
    if lang == 'scala':
        explicit = len(re.findall(r'\bnew[ \t]+' + ts.ident_re(name) + r'[ \t]*\[', T))
        omitted = len(re.findall(r'\bnew[ \t]+' + ts.ident_re(name) + r'[ \t]*\(', T))
        # super-constructor calls: `extends Name[...](...)`
        explicit_super = 0
        for m in re.finditer(r'\bextends[ \t]+' + ts.ident_re(name) + r'[ \t]*\[', T):
            k = ts.match_close(T, m.end() - 1)
            if k > 0 and T[k + 1:k + 2] == '(':
                explicit_super += 1
        return omitted, explicit + explicit_super
    # kotlin: Name<...>(  or Name(   - not the class declaration, not a type annotation
    for m in re.finditer(ts.ident_re(name) + r'[ \t]*([<(])', T):
        ls = T.rfind('\n', 0, m.start()) + 1
        before = T[ls:m.start()]
        if re.search(r'\b(class|interface)[ \t]+$', before):
            continue
        if m.group(1) == '(':
            omitted += 1
        else:
            k = ts.match_close(T, m.end() - 1)
            if k > 0 and T[k + 1:k + 2] == '(':
                explicit += 1
    return omitted, explicit


# ------------------------------------------------------------------ driver
def make_judge(col):
    def judge(case):
        lang = case.lang
        prog = case.program
        out = []
        texts = []
        import random
        seed0 = case.seed or len(case.tape or []) or 1
        stages = []
        # one translator object per program, reused for every stage - as the driver does (gen_program)
        tr = boot.translator_class(lang)('src.pkg', {'cast_numbers': False})
        try:
            stages.append(('G', pg.translate(prog, lang, translator=tr)))
            boot._state['utils'].random.r = random.Random(seed0 * 5 + 1)
            te = pg.erase(prog, lang)
            if te.is_transformed:
                stages.append(('E', pg.translate(prog, lang, translator=tr)))
        except Exception as e:
            # erasure stopped half-way (budget or crash): prog is partly erased and matches neither text - the G stage is
            # judged on the fresh regeneration below, the E stage is dropped
            col.feature('pipeline_exception(C18 territory):' + type(e).__name__)
            stages = []
        total_items = 0
        erased = overwritten = False
        generic = False
        for stage, text in list(stages):
            viols, items, inv = judge_text(prog, text, lang, stage, col) if stage == stages[-1][0] else ([], 0, None)
            if stage == 'G' and len(stages) > 1:
                # the G text was produced from the program before erasure: judge it against a fresh regeneration
                continue
            total_items += items
            for sig, d in viols:
                out.append((sig, dict(d, stage=stage)))
            if inv is not None:
                generic = generic or any(c.type_parameters for c in inv.classes)
        # G stage (fresh program object) and O stage
        try:
            case2 = pg.regen(case.key())
            if case2.program is not None:
                tg_ = pg.translate(case2.program, lang)
                viols, items, inv = judge_text(case2.program, tg_, lang, 'G', col)
                total_items += items
                out += [(s, dict(d, stage='G')) for s, d in viols]
                texts.append(tg_)
        except Exception as e:
            col.feature('pipeline_exception(C18 territory):' + type(e).__name__)
        try:
            to = pg.overwrite(prog, lang)
            if to.is_transformed:
                to_text = pg.translate(prog, lang, translator=tr)
                viols, items, inv = judge_text(prog, to_text, lang, 'O', col)
                total_items += items
                out += [(s, dict(d, stage='O')) for s, d in viols]
                overwritten = True
                texts.append(to_text)
        except Exception as e:
            col.feature('pipeline_exception(C18 territory):' + type(e).__name__)
        erased = len(stages) > 1
        col.add_extra('programs', 1 + int(erased) + int(overwritten))
        col.add_extra('disagreements_checked', total_items)
        if erased:
            col.feature('stage_E_judged')
        if overwritten:
            col.feature('stage_O_judged')
        text_all = stages[-1][1] if stages else ''
        seen = set()
        uniq = []
        for sig, d in out:
            if sig not in seen:
                seen.add(sig)
                uniq.append((sig, dict(d, lang=lang)))
        sample = lambda: {'lang': lang, 'seed': case.seed, 'mode': case.mode, 'stages': [s for s, _ in stages] + (['O'] if overwritten else []),
                          'items_compared': total_items, 'text_head': text_all[:300]}
        return uniq, (erased or overwritten) and generic, sample, progcheck.text_key(text_all + str(overwritten))
    return judge


def finish(tier, cov):
    return {'programs': cov.get('programs', 0), 'disagreements_checked': cov.get('disagreements_checked', 0)}


def run_shard(spec, col):
    quick = col.tier == 'quick'
    boot.init(spec['lang'])
    progcheck.run(spec, col, make_judge(col), n_seed=24 if quick else 300, n_tape=30 if quick else 1000, shrink=False,
                  n_hand=40 if quick else 1500)


def replay(key, col):
    boot.init(key['lang'])
    case = pg.regen(key)
    if case.program is None:
        return
    viols, nontriv, sample, k = make_judge(col)(case)
    col.case(key=k, nontrivial=nontriv, sample=sample)
    for sig, d in viols:
        col.violation(sig, d, key)
