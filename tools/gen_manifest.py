#!/venv/bin/python
"""Regenerates MANIFEST.json from the table below (kept valid at all times)."""
import json
import os

ROOT = os.path.dirname(os.path.dirname(os.path.abspath(__file__)))

CHECKS = {
    'C07': dict(
        category='exploration',
        text=('Hypothesis-drawn class tables and histories of new / substitute_type / to_variance_free / to_type_variable_free / '
              'instantiate_type_constructor / get_supertypes / new-from-the-argument-list-of-an-earlier-type followed by an in-place edit / rejected (wrong-arity) instantiation, on a shared pool of type objects; each new() is followed by the rebuilds through the constructor kept inside it: supertypes of every result are compared, '
              'transitively, with a reference substitution on immutable terms; after every operation every constructor, argument and '
              'earlier result is diffed structurally against a deep copy taken when it entered the pool; failing histories are shrunk.'),
        design_ref='DESIGN.md §3 C07',
        note='Reference = literal substitution on terms; arguments of new() are type-variable-free as the property states.',
        technique='history-based property testing (Hypothesis operation sequences) against a reference substitution + structural invariants; the same histories driven by an atheris (libFuzzer) campaign',
    ),
    'C08': dict(
        category='exploration',
        text=('Every top-level call of instantiate_type_constructor / instantiate_parameterized_function is recorded as terms - while '
              'Hypothesis drives the helpers over synthetic declarations x pools (IR types, or class declarations + builtins as the generator passes them) x pre-assignments x variance choices x switches, and while '
              'the real generator runs - and judged against post-conditions P1-P5 with the reference subtype relation.'),
        design_ref='DESIGN.md §3 C08',
        note='Effective variance choices follow the documented overrides; contravariant projection arguments are not judged against bounds.',
        technique='property-based testing with recorded calls (synthetic + in-situ) and post-condition oracles over a reference relation',
    ),
    'C09': dict(
        category='exploration',
        text=('Top-level calls of find_subtypes / find_irrelevant_type recorded as terms on synthetic class tables (Hypothesis; queries include bounded type variables, variance-related heirs, contravariant projections; pools as types or declarations) and during '
              'real generation and TypeOverwriting; every result is judged with the reference relation (subtype / unrelated / include_self '
              '/ no bare generic class / nothing for the top type).'),
        design_ref='DESIGN.md §3 C09',
        note='The reference relation has the implicit top type; type variables with a declared bound are judged through the bound.',
        technique='property-based testing with recorded calls (synthetic + in-situ) against a reference subtype relation',
    ),
    'C10': dict(
        category='exploration',
        text=('Constructive (target, pattern) pairs: ground targets generalised into patterns with repeated / bounded / nested variables '
              'and (nested) projections, perturbed non-unifiable variants (changed leaf, reused variable, violated bound, swapped constructor, nested supertype, conflicting bound over an earlier variable), lone-variable patterns against ground and type-variable targets, supertype mode; every non-empty result is applied '
              'to the pattern with the reference substitution and compared with the target (or its supertypes), bounds checked with RM; '
              'failures are shrunk by Hypothesis.'),
        design_ref='DESIGN.md §3 C10',
        note='One-directional as the property states: an empty result on a unifiable pair is counted, not judged.',
        technique='constructive property-based testing (substitute-back oracle) with Hypothesis shrinking; the same strategy driven by an atheris (libFuzzer) campaign',
    ),
    'C12': dict(
        category='translation_validation',
        text=('Inventory of declarations, modifiers, bounds, variance, inheritance clauses, annotations, constructor / call type arguments '
              'and literals (string, char, integer, real, boolean) and binary operators computed from the IR is compared with name-anchored scans of the emitted text for stages G, E and O in the '
              'program\'s own language (4 languages; generated programs plus hand-shaped ones - nested vararg functions, generic calls); backward check of declared classes; bracket / quote balance.'),
        design_ref='DESIGN.md §3 C12, §2.8',
        note='Scanners are regular-expression based and name-anchored (identifiers are unique); expressibility table in DESIGN.md.',
        technique='translation validation by independent text scanners against an IR inventory over generated programs',
    ),
    'C01': dict(
        category='exploration',
        text=('Every program returned by the real generator (4 languages x 16 switch combinations; seed mode at default and reduced '
              'limits, Hypothesis-tape mode at small limits with shrinking) is judged by an independent reference type checker on every '
              'initialiser, call/constructor/super argument, array element, function and lambda result, conditional branch, assignment, '
              'explicit type argument bound and class obligation; violations are attributed to the producing gen_* routine.'),
        design_ref='DESIGN.md §3 C01, §2.4',
        note='Trusts RC/RM (calibrated against javac through C02); no Kotlin/Groovy/Scala compiler is installed.',
        technique='property-based testing of the generator against a reference type checker (differential oracle)',
    ),
    'C02': dict(
        category='translation_validation',
        text=('Java translations of generated programs and of Java-expressible hand-shaped programs (stage G and after TypeErasure) are compiled by the installed javac alone and in '
              'random batches mixed with type-overwriting victims; oracle: no error for a G/E file, and alone-verdict == batch-verdict.'),
        design_ref='DESIGN.md §3 C02',
        note='javac 17 is the judge; its own diagnostics are parsed by vlib/jd.py, not by src/compilers.',
        technique='differential / metamorphic testing against the real compiler (javac) on generated programs',
    ),
    'C03': dict(
        category='exploration',
        text=('TypeErasure applied once and twice (plus further independent erasures of copies under other RNG seeds: other feasible subsets) to generated and hand-shaped programs: structural before/after diff must stay inside the whitelist of '
              'removable annotations, and the reference checker in inference mode (removed annotations replaced by what a compiler infers) '
              'must accept the result; Java results are additionally compiled by javac in C02.'),
        design_ref='DESIGN.md §3 C03',
        note='The inference model of RC is first-order (documented in ASSUMPTIONS); only Java has a real compiler as second judge.',
        technique='metamorphic property testing of the mutation: whitelist structural diff + reference checker in inference mode',
    ),
    'C04': dict(
        category='exploration',
        text=('TypeOverwriting re-rolled under several RNG seeds on pickled copies of generated and erased programs: exactly one declared '
              'type slot differs, old/new unrelated in the reference relation and under the language conversions, message names both types, '
              'the reference checker (and javac for Java) rejects the mutant, translation changed; untouched when nothing is reported.'),
        design_ref='DESIGN.md §3 C04',
        note='RM/RC and javac are the judges of "a correct type checker must reject".',
        technique='metamorphic property testing of the mutation with a reference relation and the real compiler as judges',
    ),
    'C05': dict(
        category='exploration',
        text=('Independent lexical scope / member resolver over every generated program: every name use resolves to a visible declaration, '
              'arities admit the arguments, only non-final variables/fields are assigned, only regular classes instantiated, type variables '
              'in scope, identifiers unique per scope and not reserved; plus an exhaustive enumeration of the whole word pool x 3 emitted '
              'forms x 4 languages against the keyword files and the language specifications.'),
        design_ref='DESIGN.md §3 C05',
        note='Scope rules are those of the target languages as mirrored by RC; the word-pool sub-check is exhaustive.',
        technique='property-based testing with a reference scope resolver + exhaustive enumeration of the identifier pool',
    ),
    'C11': dict(
        category='exploration',
        text=('Hypothesis-drawn histories of translate / fresh-translator / set-package operations over a pool of generated, erased and '
              'overwritten programs (plus the fixture programs with smart casts and hand-shaped programs with nested functions of up to 5 parameters) and reusable translator objects of all four languages; '
              'every text must equal the text first obtained from a fresh translator, and every touched program must be structurally '
              'unchanged against a deep copy taken before translation.'),
        design_ref='DESIGN.md §3 C11',
        note='Golden text = first translation by a fresh translator object; cross-language translations that raise must raise identically.',
        technique='history-based property testing (Hypothesis operation sequences) with a golden-text / structural-diff oracle',
    ),
    'C13': dict(
        category='exploration',
        text=('Round trip through the real dump/load functions at every save point (G, E1, E2, O) of Hypothesis-configured pipelines in 4 '
              'languages (generated and hand-shaped programs): the loaded program translates to the source text stored before the dump, equal text under all four translators, equal results of erasure+overwriting under identical RNG, stable second '
              'dump, equal reverse namespace lookups; plus an other-process leg: save points are read back by a fresh interpreter with a '
              'different PYTHONHASHSEED (the --replay situation) and must translate to the texts of the live object.'),
        design_ref='DESIGN.md §3 C13',
        note='Pickle bytes / object sharing are reported only; observable behaviour (1)-(4) is judged.',
        technique='round-trip property testing over generated programs (seed and Hypothesis-tape mode)',
    ),
    'C14': dict(
        category='fault_enumeration',
        text=('Grammar-based generation of compiler outputs in the four real formats with ground truth by construction (files, errors, '
              'warnings, notes, summaries, quoted lines, filters, crashes) plus real javac batches whose ground truth is each file compiled '
              'alone and parsed by an independent parser.'),
        design_ref='DESIGN.md §3 C14',
        note='kotlinc / groovyc / scalac formats come from documentation and the project README (compilers not installed); javac is real.',
        technique='grammar-based fuzzing with constructed ground truth + differential test against per-file javac runs',
    ),
    'C15': dict(
        category='fault_enumeration',
        text=('The real driver main loop runs in fresh interpreters with the compiler replaced by a stand-in that renders real-format output '
              'from a planned verdict table and generation replaced by a faithful stub (1 in 10 sessions: the real generator): exhaustive '
              'decision table for batches of 1-3 programs x crash, and Hypothesis-drawn sessions, sequential and worker-pool mode, judged '
              'against a reference model of faults, messages, counters, faults.json and the directory tree.'),
        design_ref='DESIGN.md §3 C15',
        note='Worker-pool mode is judged at quiescence; --debug/--rerun/--keep-all/--dry-run are outside the domain.',
        technique='exhaustive decision-table enumeration + model-based session testing with fault injection (scripted compiler)',
    ),
    'C17': dict(
        category='exploration',
        text=('Every object reachable from programs generated under all 16 switch combinations x 4 languages (seed mode and '
              'Hypothesis-tape mode) is inspected for use-site projections, contravariant projections, bounds, function type parameters '
              'and declaration-site variance; stray objects are traced to their creation site by deterministic re-generation. A command-line '
              'leg parses every switch combination through src/args.py in a fresh interpreter and compares the resulting configuration.'),
        design_ref='DESIGN.md §3 C17',
        note='Type parameters of builtin constructors are scaffolding; the per-switch feature rates show the feature occurs when allowed.',
        technique='property-based testing of the generator over its configuration space with an object-graph invariant',
    ),
    'C18': dict(
        category='exploration',
        text=('Pipelines generate/translate/erase/translate/overwrite/translate over Hypothesis-drawn seeds, switches and limits in 4 '
              'languages, in seed mode and in tape mode (Hypothesis owns every random choice, failures shrink), hand-shaped programs through the mutation stages, and long sessions (many programs generated in one process from a thinned identifier pool; a failure that does not reproduce in a fresh state is history-dependent); any exception is a '
              'violation bucketed by (stage, type, innermost repository frame); generator depth counter, generate_expr nesting and AST '
              'depth are bounded by functions of max_depth.'),
        design_ref='DESIGN.md §3 C18',
        note='Termination is bounded work on generated cases, not liveness; oversize cases (step budget) are discarded and counted.',
        technique='random + Hypothesis-tape fuzzing of the whole pipeline with crash bucketing and work counters',
    ),
    'C06': dict(
        category='exploration',
        text=('impl.is_subtype / is_assignable compared with an independent declarative relation (RM: JLS 4.5.1 / Kotlin containment on '
              'intervals, declaration-site variance, capture conversion) on (a) every ordered pair of exhaustively enumerated type pools '
              'over fixed small class tables per language, (b) Hypothesis-generated class tables with pairs related by construction, '
              '(c) the queries the real generator issues, (d) every ordered pair of the language\'s builtin types, (e) instantiations with '
              'class-scope type variables whose implementation-enumerated supertypes are judged, (f) a coverage-guided atheris campaign over '
              'the strategy of (b). Soundness on all pairs, exactness + reflexivity + transitivity + bottom on the exact fragment.'),
        design_ref='DESIGN.md §3 C06, §2.3',
        note='Trusts RM (self-tested on algebraic laws and javac-confirmed facts); kotlinc/scalac/groovyc are not installed.',
        technique='differential testing against a reference subtyping model: exhaustive small tables + Hypothesis constructive pairs + atheris (libFuzzer) campaign',
    ),
    'C16': dict(
        category='exploration',
        text=('Hypothesis RuleBasedStateMachine drives a real Context and an association-list reference model in lock step over histories of '
              'add/remove/overwrite/re-add on all five entity kinds and growing namespace trees; every query (current, path, glob, get_decl, '
              'reverse lookup) is compared after every step.'),
        design_ref='DESIGN.md §3 C16',
        note='Trusts the association-list model; order of path/glob results is not judged (the property is silent).',
        technique='stateful model-based testing (Hypothesis rule-based state machine) against a reference scoped map',
    ),
    'C19': dict(
        category='exploration',
        text=('Exhaustive enumeration of all digraphs with self-loops on <=4 labelled vertices (thorough; quick: all on <=3 plus a '
              'seeded slice of 10 000 of the 65 536 on 4) plus Hypothesis-drawn digraphs on 5..9 vertices; every query function on every '
              'vertex / ordered pair, compared with an independent closure / union-find / simple-path reference that is cross-checked '
              'against networkx in the same run. Non-termination is a deterministic step-budget verdict.'),
        design_ref='DESIGN.md §3 C19',
        note='Trusts the reference (40 lines, cross-checked with networkx each run) and the stated textbook definitions.',
        technique='exhaustive small-scope enumeration + Hypothesis random graphs against a reference model',
    ),
}

NOT_APPLICABLE = []
ALL = ['C%02d' % i for i in range(1, 20)]


def main():
    checks = []
    for pid in ALL:
        if pid not in CHECKS:
            continue
        c = CHECKS[pid]
        checks.append({
            'property_id': pid,
            'quick_cmd': './vcheck %s quick' % pid,
            'thorough_cmd': './vcheck %s thorough' % pid,
            'evidence_file': 'evidence/%s.json' % pid,
            'replay_cmd_template': './vcheck %s --replay {path}' % pid,
            'engine': c.get('engine', 'vlib/checks/%s.py' % pid.lower()),
            'level_claimed': {'category': c['category'], 'text': c['text'], 'design_ref': c['design_ref']},
            'level_note': c['note'],
            'technique': c['technique'],
        })
    na = list(NOT_APPLICABLE)
    listed = {c['property_id'] for c in checks} | {n['property_id'] for n in na}
    for pid in ALL:
        if pid not in listed:
            na.append({'property_id': pid,
                       'reason': 'check not built yet in this session (in progress per DESIGN.md §6 build order); not a statement that the technique cannot apply'})
    m = {
        'version': 1,
        'setup_cmd': './setup.sh',
        'hooks': {
            'guard': 'HEPHAESTUS_VERIF',
            'enable': ('no source hooks are needed: every check imports /repo\'s working tree in fresh subprocesses (env HEPHAESTUS_VERIF=1, '
                       'PYTHONHASHSEED=0) and instruments it from outside by wrapping module attributes; the guard variable is set for '
                       'completeness and is read by nothing in /repo'),
            'baseline_off_cmd': 'cd /repo && /venv/bin/python -m pytest -q -p no:cacheprovider tests',
            'source_commits': [],
            'add_only': True,
        },
        'engines': [
            {'name': 'runner', 'path': 'vlib/runner.py', 'serves_properties': [c['property_id'] for c in checks],
             'kind_free_text': 'shard fan-out (16 fresh subprocesses), merge, known-findings judgement, evidence and replay files'},
        ],
        'checks': checks,
        'not_applicable': na,
        'notes': 'All checks are property-based tests / fuzzers (Hypothesis, exhaustive enumeration, atheris campaigns in C06/C07/C10). See DESIGN.md.',
    }
    with open(os.path.join(ROOT, 'MANIFEST.json'), 'w') as f:
        json.dump(m, f, indent=1)
        f.write('\n')
    try:
        import jsonschema
        jsonschema.validate(m, json.load(open('/root/.vp/MANIFEST.schema.json')))
        print('MANIFEST.json valid;', len(checks), 'checks,', len(na), 'not_applicable')
    except ImportError:
        print('MANIFEST.json written (jsonschema not importable here)')


if __name__ == '__main__':
    main()
