"""Shared driver for checks whose cases are generated programs."""
import hashlib

from hypothesis import strategies as st

from vlib import boot, hyp, pg


def run(spec, col, judge, n_seed, n_tape, budget_seed=20000, budget_tape=4000, shrink=True,
        seed_limits=None, prepare=None, n_hand=0):
    """judge(case) -> (viols [(signature, detail)], nontrivial, sample_fn, text_key)
    Runs n_seed seed-mode and n_tape tape-mode cases of spec['lang'].  Unlisted
    signatures first seen in tape mode are shrunk once (bounded)."""
    lang = spec['lang']
    boot.init(lang)
    if prepare:
        prepare()

    def account(case):
        if case.program is None:
            col.feature('discarded_oversize' if case.oversize else 'discarded_generator_error(C18 territory)')
            if case.error:
                # kept so that the case can be handed to C18 (./vcheck C18 --replay <file with this key as "case">)
                col.feature('generator_error:%s@%s' % (case.error['type'], (case.error.get('frames') or ['?'])[-1]))
                col.extra.setdefault('generator_error_keys', [])
                if len(col.extra['generator_error_keys']) < 3:
                    col.extra['generator_error_keys'].append(case.key())
            col.case(key=repr(case.key())[:80], nontrivial=False)
            return []
        viols, nontriv, sample, key = judge(case)
        col.case(key=key, nontrivial=nontriv, sample=sample)
        col.feature('programs_' + case.mode)
        size = len(case.tape) if case.tape else 100000 + case.counters.get('generate_expr_calls', 0)
        for sig, detail in viols:
            col.violation(sig, detail, case.key(), size=size)
        return viols

    def seed_case(x):
        seed, (sw, limits) = x
        account(pg.gen_case(lang, 'seed', seed, sw, limits, budget=budget_seed))
    if n_seed:
        hyp.explore(st.tuples(st.integers(0, 2 ** 31 - 1), seed_limits or pg.config_strategy()), seed_case, n_seed,
                    col.shard_seed('seed'))
    if n_hand:
        # hand-shaped programs (vlib/handprog.py): shapes the generator produces rarely; only for properties that speak
        # about *any* program (translation, persistence), never for properties of the generator itself
        def hand(data):
            case = pg.hand_case(lang, draw=data.draw)
            for sig, detail in account_hand(case):
                pass

        def account_hand(case):
            viols, nontriv, sample, key = judge(case)
            col.case(key=('hand', key), nontrivial=nontriv, sample=lambda: {'lang': lang, 'handmade_units': case.labels})
            col.feature('programs_handmade')
            for lab in case.labels:
                col.feature('handmade_unit:' + lab.split('/')[0])
            for sig, detail in viols:
                col.violation(sig + '/handmade', dict(detail, units=case.labels), case.key(), size=len(case.tape))
            return viols
        hyp.explore(st.data(), hand, n_hand, col.shard_seed('hand'))
    tape_strategy = st.tuples(st.data(), pg.config_strategy(small=True))
    tape_sigs = {}

    def tape_case(x):
        data, (sw, limits) = x
        for sig, _ in account(pg.gen_case(lang, 'tape', 0, sw, limits, data=data, budget=budget_tape)):
            tape_sigs[sig] = tape_sigs.get(sig, 0) + 1
    if n_tape:
        hyp.explore(tape_strategy, tape_case, n_tape, col.shard_seed('tape'))
    if shrink:
        for sig in sorted(tape_sigs)[:3]:
            best = {}

            def failing(x, sig=sig):
                data, (sw, limits) = x
                case = pg.gen_case(lang, 'tape', 0, sw, limits, data=data, budget=budget_tape)
                if case.program is None:
                    return False
                viols = judge(case)[0]
                hit = [v for v in viols if v[0] == sig]
                if hit and ('case' not in best or len(case.tape) <= len(best['case'].tape)):
                    best['case'], best['detail'] = case, hit[0][1]
                return bool(hit)
            hyp.minimize(tape_strategy, failing, col.shard_seed('tape'), max_examples=n_tape + 50)
            if 'case' in best:
                col.violation(sig, best['detail'], best['case'].key(), size=len(best['case'].tape))
                col.feature('shrunk_witnesses')


def text_key(text):
    return hashlib.sha1(text.encode()).hexdigest()[:16]
