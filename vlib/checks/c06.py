"""C06 — the subtyping judgement is sound, and exact on concrete class types.

Oracle: RM (vlib/rm.py), a declarative relation written from the JLS / Kotlin
specification (containment on intervals, declaration-site variance, capture
conversion of projected receivers) that never calls the IR's own predicates.
  soundness   impl(S,T)          => RM_sem(S,T)        all pairs
              impl_assignable    => RM_sem(S,T)        (primitive == boxed, as Builtin.__eq__ documents)
  exactness   RM_syn(S,T)        => impl(S,T)          pairs of the exact fragment
              reflexive, transitive, Nothing <: T      on the implementation alone
Domains: (a) exhaustive pools over fixed small tables, all ordered pairs;
(b) Hypothesis universes with pairs related *by construction* (supertype
steps, argument widening by variance, projection wrapping, star);
(c) queries recorded while the real generator runs (judged against the
program's final class table) - see vlib/pg.py;  (d) atheris in thorough.
"""
import copy
import itertools

from hypothesis import strategies as st

from vlib import boot, fuzz, hyp, rm, tg

LEVEL = 'exploration'
RULE = ('case = ordered pair (S,T) of types over a class table; exhaustive part: every ordered pair of the complete '
        'depth<=1 pool plus a thinned depth-2 pool of each fixed table (inv-nesting, bounded-two-params, decl-variance, '
        'variance-nesting) per language; random part: Hypothesis universes (1-6 classes, variance, bounds, one supertype) '
        'with T derived from S by moves (declared-supertype step, argument widening/narrowing, projection wrap/unwrap, '
        'star) so that related pairs are frequent, both directions judged; recorded part: is_subtype/is_assignable '
        'queries issued by the real generator. non-trivial = RM relates the pair with S != T, or the pair involves a '
        'projection, declared variance or a bounded parameter; distinct = distinct (table, S, T)')
ASSUMPTIONS = [
    'RM is the trusted reference (algebraic self-tests and javac-confirmed facts in vlib/rm_selftest.py)',
    'conflicting projections (in on a declared-out parameter and vice versa) are ill-formed and outside every domain',
    'soundness is judged against the semantic reading of invariant containment, exactness against the syntactic one',
    'a primitive and its boxed class are one type (Builtin.__eq__ is by class); primitives are outside the exact fragment',
]
MIN_NONTRIVIAL = {'quick': 3000, 'thorough': 100000}
NSHARDS = 16
LANGS = ['kotlin', 'java', 'scala', 'groovy']


def shards(tier):
    out = []
    for k in range(NSHARDS):
        out.append({'k': k, 'lang': LANGS[k % 4]})
    return out


# ------------------------------------------------------------------ classification
def classify(u, s, t):
    """Shape class of a pair, for narrow signatures."""
    def has_proj_arg_on_class_with_super(x):
        if x[0] != 'i':
            return False
        info = u.table.cls.get(x[1])
        if info and info['supers'] and any(rm.is_proj(a) for a in x[2]):
            return True
        return any(has_proj_arg_on_class_with_super(a[2] if a[0] == 'p' else a) for a in x[2] if a[0] in ('i', 'p'))
    tags = []
    if rm.has_kind(s, ('v',)) or rm.has_kind(t, ('v',)):
        tags.append('typevar')
    if s[0] == 'k' or t[0] == 'k':
        tags.append('bare-constructor')
    if rm.is_proj(s) or rm.is_proj(t):
        tags.append('top-level-projection')
    if s[0] == 'i' and t[0] == 'i':
        tags.append('same-constructor' if s[1] == t[1] else 'nominal')
    elif s[0] in ('b', 'c') and t[0] in ('b', 'c'):
        tags.append('simple')
    else:
        tags.append('mixed')
    return '+'.join(tags)


def projected_receiver(u, x):
    """x contains an instantiation with a use-site projection (or star) on a
    parameter that a declared supertype of that class mentions: the shape on
    which capture conversion matters for the nominal path."""
    if x is None or x[0] not in ('i', 'p'):
        return False
    if x[0] == 'p':
        return projected_receiver(u, x[2])
    info = u.table.cls.get(x[1])
    if info and info['supers']:
        for (pn, pv, pb), a in zip(info['params'], x[2]):
            if rm.is_proj(a) and any(pn in rm.free_vars(sup) for sup in info['supers']):
                return True
    return any(projected_receiver(u, a) for a in x[2])


def family(u, J, s, t, extra=()):
    if projected_receiver(u, s) or any(projected_receiver(u, e) for e in extra):
        return 'no-capture-in-supertypes/' + classify(u, s, t)
    return classify(u, s, t)


class Judge:
    def __init__(self, u, col, origin, scope_class=None):
        self.u, self.col, self.origin = u, col, origin
        self.scope_class = scope_class
        self.sem = rm.RM(u.table, 'sem')
        self.syn = rm.RM(u.table, 'syn', implicit_top=False)
        self.spec = u.spec()

    def case_of(self, s, t, what):
        case = {'universe': self.spec, 'S': s, 'T': t, 'what': what}
        if self.scope_class is not None:
            case['scope_class'] = self.scope_class
        return case

    def pair(self, s, t, irs, irt, prim=False, check_assignable=True):
        col = self.col
        try:
            im = bool(irs.is_subtype(irt))
        except RecursionError:
            col.feature('impl_exception:RecursionError')
            return None
        except Exception as e:
            col.feature('impl_exception:' + type(e).__name__)
            return None
        want = self.sem.sub(s, t)
        nontriv = (want and s != t) or rm.has_kind(s, ('p', 'star')) or rm.has_kind(t, ('p', 'star'))
        col.case(key=(self.origin, self.spec['lang'], tuple(self.u.describe()), s, t), nontrivial=bool(nontriv),
                 sample=lambda: {'table': self.u.describe(), 'S': rm.show(s), 'T': rm.show(t),
                                 'impl': im, 'reference': want, 'origin': self.origin})
        if want:
            col.feature('related_pairs')
        if im and not want:
            fam = family(self.u, self, s, t)
            col.violation('C06/unsound/' + fam,
                          {'S': rm.show(s), 'T': rm.show(t), 'impl': True, 'reference': False,
                           'table': self.u.describe()},
                          self.case_of(s, t, 'is_subtype'), size=_size(s, t, self.u))
        exact = (not prim) and self.sem.exact_fragment(s) and self.sem.exact_fragment(t)
        if exact:
            col.feature('exact_fragment_pairs')
            if self.syn.sub(s, t) and not im:
                fam = family(self.u, self, s, t)
                col.violation('C06/incomplete/' + fam,
                              {'S': rm.show(s), 'T': rm.show(t), 'impl': False, 'reference': True,
                               'table': self.u.describe()},
                              self.case_of(s, t, 'is_subtype'), size=_size(s, t, self.u))
        if check_assignable:
            try:
                ia = bool(irs.is_assignable(irt))
            except Exception as e:
                col.feature('impl_exception_assignable:' + type(e).__name__)
                return im
            if ia and not want:
                fam = family(self.u, self, s, t)
                col.violation('C06/unsound-assignable/' + fam,
                              {'S': rm.show(s), 'T': rm.show(t), 'impl_assignable': True, 'reference': False,
                               'table': self.u.describe()},
                              self.case_of(s, t, 'is_assignable'), size=_size(s, t, self.u))
        return im


class NaiveRM(rm.RM):
    """RM with the one deviation the implementation is known to have:
    projection arguments are substituted into declared supertypes as they
    are (no capture conversion).  Used only to *name* the root cause of a
    disagreement; it never makes a disagreement disappear."""

    def supers(self, s):
        if s[0] == 'i':
            info = self.t.cls.get(s[1])
            if info is None or len(info['params']) != len(s[2]):
                return []
            th = {pn: a for (pn, pv, pb), a in zip(info['params'], s[2])}
            out = []
            for sup in info['supers']:
                r = rm.subst(sup, th)
                if r is not None and not rm.is_proj(r):
                    out.append(r)
            return out
        return super().supers(s)


def _size(s, t, u):
    return len(str(s)) + len(str(t)) + 20 * len(u.order)


# ------------------------------------------------------------------ (a) exhaustive pools
def exhaustive_part(spec, col):
    k = spec['k']
    tier = col.tier
    tables = []
    for lang in LANGS:
        for name, u in tg.fixed_universes(lang):
            tables.append((lang, name, u))
    # every shard handles rows i % NSHARDS == k of every table
    for lang, name, u in tables:
        J = Judge(u, col, 'exhaustive:' + name)
        base = [t for t in u.ground_base() if not J.sem.is_top(t)][:5] + [u.top[0]]
        pool = tg.enum_types(u, 2, J.sem, base=base, max_arg_pool=(7 if tier == 'quick' else 12))
        pool.append(rm.BOT)
        if len(pool) > (260 if tier == 'quick' else 1400):
            # deterministic thinning of the deepest level, depth<=1 stays complete
            shallow = [t for t in pool if rm.depth(t) <= 1]
            deep = [t for t in pool if rm.depth(t) > 1]
            room = (260 if tier == 'quick' else 1400) - len(shallow)
            step = max(1, len(deep) // max(1, room))
            pool = shallow + deep[::step][:max(0, room)]
        irs = [u.ir(t) for t in pool]
        col.add_extra('exhaustive_pool_types', len(pool) if k == 0 else 0)
        n = len(pool)
        rows = [i for i in range(n) if i % NSHARDS == k]
        M = {}
        for i in rows:
            for j in range(n):
                im = J.pair(pool[i], pool[j], irs[i], irs[j])
                M[(i, j)] = im
        # oracle-free laws on the implementation, exact fragment
        ef = [i for i in range(n) if J.sem.exact_fragment(pool[i])]
        for i in rows:
            if i not in ef:
                continue
            twin = copy.deepcopy(irs[i])
            try:
                ok = irs[i].is_subtype(twin)
            except Exception:
                ok = None
            col.feature('reflexivity_checked')
            if ok is False:
                col.violation('C06/not-reflexive/' + classify(u, pool[i], pool[i]),
                              {'T': rm.show(pool[i]), 'table': u.describe()},
                              J.case_of(pool[i], pool[i], 'is_subtype'), size=_size(pool[i], pool[i], u))
            try:
                bot_ok = u.ir(rm.BOT).is_subtype(irs[i])
            except Exception:
                bot_ok = None
            col.feature('bottom_checked')
            if bot_ok is False:
                col.violation('C06/bottom-not-least', {'T': rm.show(pool[i]), 'table': u.describe()},
                              J.case_of(rm.BOT, pool[i], 'is_subtype'), size=_size(pool[i], pool[i], u))
        # transitivity: rows of this shard as first component; needs rows of j -> compute lazily
        efs = set(ef)
        cache = {}

        def imp(a, b):
            r = M.get((a, b))
            if r is None:
                r = cache.get((a, b))
                if r is None:
                    try:
                        r = bool(irs[a].is_subtype(irs[b]))
                    except Exception:
                        r = False
                    cache[(a, b)] = r
            return r
        for i in rows:
            if i not in efs:
                continue
            ups = [j for j in ef if j != i and M.get((i, j))]
            for j in ups[:12]:
                for kk in ef:
                    if kk == i or kk == j:
                        continue
                    if imp(j, kk):
                        col.feature('transitivity_triples')
                        if not M.get((i, kk)):
                            s, t = pool[i], pool[kk]
                            fam = family(u, J, s, t, extra=(pool[j],))
                            col.violation('C06/not-transitive/' + fam,
                                          {'S': rm.show(s), 'M': rm.show(pool[j]), 'T': rm.show(t),
                                           'table': u.describe()},
                                          {'universe': J.spec, 'S': s, 'M': pool[j], 'T': t, 'what': 'transitive'},
                                          size=_size(s, t, u) + len(str(pool[j])))


# ------------------------------------------------------------------ (a') the language's own builtin types
def builtin_part(spec, col):
    """Every ordered pair of the language's builtin types (boxed and primitive builtins, Array<B> / Seq<B> over the
    boxed builtins, Kotlin's specialised arrays).  The reference hierarchy of a builtin is the transitive closure of
    its declared supertypes; two builtin constructors are the same class only if they are the same Python class (this is
    how the translators tell DoubleArray from Array<Double>)."""
    lang = spec['lang']
    if spec['k'] >= 4:          # one shard per language
        return
    u = tg.Universe(lang)
    J = Judge(u, col, 'builtins')
    entries = []
    seen = set()
    for t, ir in u.all_builtins:
        if t not in seen:
            seen.add(t)
            entries.append((t, ir, False))
    boxed = [t for t, ir in u.builtins]
    for key in sorted(k for k in u.classes if k not in u.order and k != 'SpecializedArrayType:Array'):
        con = u.classes[key]
        if len(con.type_parameters) != 1:
            continue
        for b in boxed:
            t = ('i', key, (b,))
            if t not in seen:
                seen.add(t)
                entries.append((t, u.ir(t), False))
    if hasattr(u.factory, 'get_primitive_types'):
        for ir in u.factory.get_primitive_types():
            entries.append((rm.to_term(ir, u.table), ir, True))
    col.add_extra('builtin_pool_types', len(entries))
    for s, irs, ps in entries:
        for t, irt, pt in entries:
            J.pair(s, t, irs, irt, prim=ps or pt)


# ------------------------------------------------------------------ (a'') type variables through the hierarchy
def variable_part(spec, col):
    """Inside the body of each generic class K of the fixed tables (its own parameters in scope), every
    instantiation of every generic class with those variables and one ground type: each supertype the implementation
    enumerates for it must be a supertype in the reference (substitution reaches every level of the hierarchy)."""
    if spec['k'] >= 4:
        return
    lang = spec['lang']
    for name, u in tg.fixed_universes(lang, with_chains=True):
        ground = [t for t, _ in u.builtins][2:3]
        for scope_class in u.generics():
            J = Judge(u, col, 'variables:' + name, scope_class)
            env = {p.name: p for p in u.classes[scope_class].type_parameters}
            vs = [('v', pn, pb) for pn, pv, pb in u.table.cls[scope_class]['params']] + ground
            for k in u.generics():
                n = len(u.table.cls[k]['params'])
                for args in itertools.product(vs, repeat=n):
                    s = ('i', k, tuple(args))
                    if not J.sem.wf(s):
                        continue
                    try:
                        irs = u.ir(s, env)
                        sups = sorted(irs.get_supertypes(), key=str)
                    except Exception as e:
                        col.feature('impl_exception_get_supertypes:' + type(e).__name__)
                        continue
                    for sup in sups:
                        try:
                            tt = rm.to_term(sup)
                        except Exception:
                            continue
                        col.feature('impl_enumerated_supertypes')
                        J.pair(s, tt, irs, sup, check_assignable=False)
                    # and the other direction: every reference supertype is answered positively (variables are outside
                    # the exact fragment, so this is counted, not judged)
                    for t in J.sem.all_supers(s):
                        try:
                            if not irs.is_subtype(u.ir(t, env)):
                                col.feature('reference_supertype_not_recognised(variables, not judged)')
                        except Exception:
                            pass


# ------------------------------------------------------------------ (b) random universes, constructive pairs
def moves(draw, u, R, s, scope, nmax=3):
    """Derive types related to s by construction; returns list of terms."""
    out = []
    cur = s
    for _ in range(draw(st.integers(1, nmax))):
        mv = draw(st.sampled_from(['super', 'super', 'widen', 'wrap', 'star', 'argsuper', 'argsub', 'nest', 'unwrap']))
        nxt = apply_move(draw, u, R, cur, mv, scope)
        if nxt is not None and R.wf(nxt):
            cur = nxt
            out.append(cur)
    return out


def apply_move(draw, u, R, t, mv, scope):
    if t[0] in ('b', 'c') or (t[0] == 'i' and mv == 'super'):
        if mv != 'super' and t[0] != 'i':
            mv = 'super'
        ups = [x for x in R.supers(t) if not rm.has_kind(x, ('cap',))]
        if not ups:
            return u.top[0] if draw(st.booleans()) else None
        return draw(st.sampled_from(ups))
    if t[0] == 'v':
        return t[2]
    if t[0] != 'i' or not t[2]:
        return None
    info = u.table.cls[t[1]]
    i = draw(st.integers(0, len(t[2]) - 1))
    a = t[2][i]
    pv = info['params'][i][1]
    new = None
    if mv == 'star':
        new = rm.STAR
    elif mv == 'wrap' and not rm.is_proj(a):
        d = draw(st.sampled_from(['out', 'in']))
        if (d == 'out' and pv == 'in') or (d == 'in' and pv == 'out'):
            d = 'out' if pv == 'out' else 'in'
        new = ('p', d, a)
    elif mv == 'unwrap' and a[0] == 'p':
        new = a[2]
    elif mv in ('widen', 'argsuper', 'argsub', 'nest'):
        inner = a[2] if a[0] == 'p' else a
        if inner is None or inner[0] == 'star' or rm.is_proj(inner):
            return None
        if mv == 'argsub':
            cands = [x for x in _ground(u, scope) if R.sub(x, inner) and x != inner]
            ni = draw(st.sampled_from(cands)) if cands else rm.BOT
        elif mv == 'nest':
            ni = apply_move(draw, u, R, inner, draw(st.sampled_from(['super', 'wrap', 'star', 'argsuper'])), scope)
        else:
            ni = apply_move(draw, u, R, inner, 'super', scope)
        if ni is None:
            return None
        if mv == 'widen':
            d = 'out' if pv != 'in' else 'in'
            new = ('p', d, ni)
        elif a[0] == 'p':
            new = ('p', a[1], ni)
        else:
            new = ni
    if new is None:
        return None
    args = list(t[2])
    args[i] = new
    return ('i', t[1], tuple(args))


def _ground(u, scope):
    return u.ground_base() + list(scope.values())


@st.composite
def pair_cases(draw, lang):
    u = draw(tg.universes(lang))
    R = rm.RM(u.table)
    scope = {}
    scope_class = None
    mode = draw(st.integers(0, 5))
    if mode == 0:
        # a type variable in scope (function type parameter)
        b = draw(tg.types(u, R, depth=1, proj=False))
        scope['Z'] = ('v', 'Z', b if (b is not None and not rm.is_proj(b) and draw(st.booleans())) else None)
    elif mode in (1, 2) and u.generics():
        # inside the body of a generic class: its own type parameters are in scope (the generator types fields and
        # locals of class C<H, G> with C<H, H>, D<G, H>, ...)
        scope_class = draw(st.sampled_from(u.generics()))
        for pn, pv, pb in u.table.cls[scope_class]['params']:
            scope[pn] = ('v', pn, pb)
    prims = bool(u.primitives) and draw(st.integers(0, 4)) == 0
    pairs = []
    for _ in range(draw(st.integers(1, 6))):
        s = draw(tg.types(u, R, depth=draw(st.integers(0, 3)), scope=scope, prims=prims))
        if s is None or not R.wf(s):
            continue
        ts = moves(draw, u, R, s, scope)
        if draw(st.integers(0, 4)) == 0:
            t2 = draw(tg.types(u, R, depth=2, scope=scope, prims=prims))
            if t2 is not None and R.wf(t2):
                ts.append(t2)
        if draw(st.integers(0, 9)) == 0 and u.generics():
            ts.append(('k', draw(st.sampled_from(u.generics()))))
        for t in ts:
            pairs.append((s, t))
    if scope_class is not None:
        # instantiations of the generic classes of the table with the variables in scope (C<H, H>, D<G, H>, ...): their
        # implementation-enumerated supertypes are judged (substitution of variables through every level of the hierarchy)
        vs = sorted(scope.values())
        for k in u.generics():
            n = len(u.table.cls[k]['params'])
            s = ('i', k, tuple(draw(st.sampled_from(vs)) for _ in range(n)))
            if R.wf(s):
                pairs.append((s, s))
    return u, scope_class, pairs


def make_one(col, origin='random'):
    def one(case):
        u, scope_class, pairs = case
        J = Judge(u, col, origin, scope_class)
        env = {}
        if scope_class is not None:
            env = {p.name: p for p in u.classes[scope_class].type_parameters}
            col.feature('universes_with_class_scope')
        enumerated = set()
        for s, t in pairs:
            try:
                irs, irt = u.ir(s, env), u.ir(t, env)
            except Exception as e:
                col.feature('harness_ir_build_failed:' + type(e).__name__)
                continue
            prim = _has_prim(u, s) or _has_prim(u, t)
            J.pair(s, t, irs, irt, prim=prim)
            J.pair(t, s, irt, irs, prim=prim)
            if s[0] == 'i' and s not in enumerated:
                # targets the implementation itself names: every supertype it enumerates for S (the nominal path of
                # is_subtype answers True for exactly these) must be a supertype of S in the reference relation
                enumerated.add(s)
                try:
                    sups = sorted(irs.get_supertypes(), key=str)
                except Exception as e:
                    col.feature('impl_exception_get_supertypes:' + type(e).__name__)
                    sups = []
                for sup in sups:
                    try:
                        tt = rm.to_term(sup)
                    except Exception:
                        continue
                    col.feature('impl_enumerated_supertypes')
                    J.pair(s, tt, irs, sup, prim=_has_prim(u, s) or _has_prim(u, tt), check_assignable=False)
        col.feature('universes')
        if any(pv != 'inv' for k in u.order for pn, pv, pb in u.table.cls[k]['params']):
            col.feature('universes_with_decl_variance')
        if any(pb is not None for k in u.order for pn, pv, pb in u.table.cls[k]['params']):
            col.feature('universes_with_bounds')
    return one


def random_part(spec, col, n):
    hyp.explore(pair_cases(spec['lang']), make_one(col), n, col.shard_seed('rand'))


def fuzz_entry(spec, col):
    """coverage-guided leg (vlib/fuzz.py): same strategy, same judge."""
    return pair_cases(spec['lang']), make_one(col, 'atheris')


def _has_prim(u, t):
    if not u.primitives:
        return False
    pt = {x for x, _ in u.primitives} - set(u.by_term)
    return rm.has_kind(t, ('b',)) and any(_contains(t, x) for x in pt)


def _contains(t, x):
    if t == x:
        return True
    if t is None:
        return False
    if t[0] == 'i':
        return any(_contains(a, x) for a in t[2])
    if t[0] in ('p',):
        return _contains(t[2], x)
    if t[0] == 'v':
        return _contains(t[2], x)
    return False


def run_shard(spec, col):
    boot.init_types_only()
    exhaustive_part(spec, col)
    builtin_part(spec, col)
    variable_part(spec, col)
    n = 250 if col.tier == 'quick' else 6000
    random_part(spec, col, n)
    fuzz.campaign('C06', spec, col, runs=300 if col.tier == 'quick' else 20000)
    recorded_part(spec, col)


def recorded_part(spec, col):
    """(c) every top-level is_subtype / is_assignable query the real generator issues, judged against the
    program's final class table."""
    from vlib import pg, pgrec
    lang = spec['lang']
    boot.init(lang)
    rec = pgrec.Recorder(kinds=('subtype',))
    quick = col.tier == 'quick'

    def judge_case(case):
        if case.program is None or not case.records:
            return
        table = pgrec.final_table(case.program, case.records['table'])
        sem = rm.RM(table, 'sem')
        desc = None
        for r in case.records['records']['subtype']:
            s, t = tg.tuplify(r['s']), tg.tuplify(r['t'])
            if s == ('unk',) or t == ('unk',):
                continue
            want = sem.sub(s, t)
            col.case(key=('rec', lang, s, t), nontrivial=bool(want and s != t) or rm.has_kind(s, ('p', 'star')) or rm.has_kind(t, ('p', 'star')),
                     sample=lambda s=s, t=t, r=r: {'origin': 'generator query', 'lang': lang, 'S': rm.show(s), 'T': rm.show(t),
                                                   'impl': r['res'], 'reference': want, 'method': r['meth']})
            col.feature('recorded_queries')
            if r['res'] and not want:
                fam = 'no-capture-in-supertypes/' if _proj_recv(table, s) else ''
                col.violation('C06/unsound%s/%srecorded/%s' % ('-assignable' if r['meth'] == 'is_assignable' else '', fam, _cls(s, t)),
                              {'S': rm.show(s), 'T': rm.show(t), 'impl': True, 'reference': False, 'lang': lang, 'method': r['meth']},
                              dict(case.key(), origin='generator'), size=100000 + len(str(s)) + len(str(t)))

    def seed_case(x):
        seed, (sw, limits) = x
        judge_case(pg.gen_case(lang, 'seed', seed, sw, limits, recorder=rec))
    hyp.explore(st.tuples(st.integers(0, 2 ** 31 - 1), pg.config_strategy()), seed_case, 4 if quick else 150, col.shard_seed('rec'))

    def tape_case(x):
        data, (sw, limits) = x
        judge_case(pg.gen_case(lang, 'tape', 0, sw, limits, data=data, budget=4000, recorder=rec))
    hyp.explore(st.tuples(st.data(), pg.config_strategy(small=True)), tape_case, 12 if quick else 400, col.shard_seed('rect'))


def _proj_recv(table, x):
    if x is None or x[0] not in ('i', 'p'):
        return False
    if x[0] == 'p':
        return _proj_recv(table, x[2])
    info = table.cls.get(x[1])
    if info and info['supers']:
        for (pn, pv, pb), a in zip(info['params'], x[2]):
            if rm.is_proj(a) and any(pn in rm.free_vars(sup) for sup in info['supers']):
                return True
    return any(_proj_recv(table, a) for a in x[2])


def _cls(s, t):
    tags = []
    if rm.has_kind(s, ('v',)) or rm.has_kind(t, ('v',)):
        tags.append('typevar')
    if s[0] == 'k' or t[0] == 'k':
        tags.append('bare-constructor')
    if s[0] == 'i' and t[0] == 'i':
        tags.append('same-constructor' if s[1] == t[1] else 'nominal')
    return '+'.join(tags) or 'other'


def replay(case, col):
    if case.get('origin') == 'generator':
        from vlib import pg, pgrec
        key = {k: v for k, v in case.items() if k != 'origin'}
        boot.init(key['lang'])
        rec = pgrec.Recorder(kinds=('subtype',))
        c = pg.regen(key, recorder=rec)
        if c.program is None:
            return
        table = pgrec.final_table(c.program, c.records['table'])
        sem = rm.RM(table, 'sem')
        for r in c.records['records']['subtype']:
            s, t = tg.tuplify(r['s']), tg.tuplify(r['t'])
            if s != ('unk',) and t != ('unk',) and r['res'] and not sem.sub(s, t):
                fam = 'no-capture-in-supertypes/' if _proj_recv(table, s) else ''
                col.violation('C06/unsound%s/%srecorded/%s' % ('-assignable' if r['meth'] == 'is_assignable' else '', fam, _cls(s, t)),
                              {'S': rm.show(s), 'T': rm.show(t)}, case)
        return
    boot.init_types_only()
    u = tg.universe_from_spec(case['universe'])
    J = Judge(u, col, 'replay', case.get('scope_class'))
    s, t = tg.tuplify(case['S']), tg.tuplify(case['T'])
    env = {}
    if case.get('scope_class'):
        env = {p.name: p for p in u.classes[case['scope_class']].type_parameters}
    if case.get('what') == 'transitive':
        m = tg.tuplify(case['M'])
        a, b, c = u.ir(s), u.ir(m), u.ir(t)
        if a.is_subtype(b) and b.is_subtype(c) and not a.is_subtype(c):
            fam = family(u, J, s, t, extra=(m,))
            col.violation('C06/not-transitive/' + fam, {'S': rm.show(s), 'M': rm.show(m), 'T': rm.show(t)}, case)
        return
    J.pair(s, t, u.ir(s, env), u.ir(t, env))
