"""C16 — the symbol table (src/ir/context.py) behaves like a scoped map.

A Hypothesis RuleBasedStateMachine drives a real `Context` and, in lock step,
an independent reference model (per-namespace association lists per entity
kind plus a reverse record per declaration; no Context code is reused).  The
machine only *builds* operations; `Harness.do(op)` executes one JSON-able
operation on both sides and then compares every query, so that the recorded
operation list re-executes a history without Hypothesis (`replay`).

What is compared, and how strictly (grounded in the property text):

* current-namespace queries (`get_*(ns, only_current=True)`): exactly the
  namespace's entries, value identity, and insertion order (order is judged
  on the entries that were not overwritten in place, where "insertion order"
  has one reading only);
* enclosing-scope queries (`get_*(ns)`): the union along the namespace path,
  the innermost namespace that has the name wins; order is not judged;
* global queries (`get_*(ns, glob=True)`, `get_namespaces_decls`): key set =
  names of every namespace reachable from ('global',) through currently
  declared functions and classes; for names present in several reachable
  namespaces the value only has to be one of the candidates;
* name lookup (`Context.get_decl`, module `get_decl(context, ns, name,
  limit)`, `get_lambda`, `get_decl_type`, `get_parent`): most recently added
  declaration of the innermost enclosing namespace that has the name;
* reverse lookup (`get_namespace`): judged only for declarations added
  exactly once and neither overwritten nor removed (-> that namespace), and
  for declarations added exactly once and then removed (-> no namespace).
  A declaration is the object handed to add_*; TypeParameter compares by
  value, and a mismatch explained by an equal twin registered elsewhere is
  reported under its own signature without stopping the run.
"""
import hashlib
import json

from vlib import boot

LEVEL = 'exploration'
RULE = ('case = one state-machine run: a history of <=40 (quick) / <=60 (thorough) operations drawn by Hypothesis '
        'rules over a namespace tree rooted at (\'global\',) that is grown by adding functions, classes, lambdas and '
        'undeclared block namespaces (<=16 namespaces): add_{type,func,lambda,var,class} with fresh or reused names from '
        'small per-kind pools and real ast/types declaration objects (Variable/Parameter/Field/Function/Class '
        'declarations, Lambda, TypeParameter), overwrite of a live name, constructive shadowing of an outer name, '
        'removal of a live name, removal of a name that only an enclosing namespace has, re-adding a removed name with '
        'the same or a new object, adding one object in a second namespace; explicit glob / get_namespaces_decls / '
        'limit / missing-namespace / get_declarations_in / find_namespaces queries. After EVERY operation all current '
        'and path queries of all six maps in all known namespaces, both get_decl forms for all names in use, '
        'get_lambda, get_parent, the glob query of all six maps and the reverse lookup of every declaration are '
        'compared with the reference model; every run ends with get_namespaces_decls for every name in use. evaluations = machine runs; a run is non-trivial when its history has '
        '>=1 removal of a live name, >=1 entry added in a namespace of depth >=2 and >=1 name live in a namespace and '
        'in one of its ancestors at once; distinct = distinct operation lists (sha1)')
ASSUMPTIONS = [
    'namespaces are tuples starting with \'global\' (ast.GLOBAL_NAMESPACE); every caller in the tree uses that root',
    'entries are real declaration objects registered under their own .name; no caller in the tree registers None '
    '("artificial nodes"), so the none= flag is only checked to be a no-op on None-free tables',
    'variables, functions and classes use disjoint name pools: they share the \'decls\' map and no caller registers a '
    'variable and a function/class under one name in one namespace',
    'a declaration is the object handed to add_*: class A<T> and class B<T> declare two type parameters although '
    'TypeParameter compares by value (name, variance, bound); a reverse-lookup mismatch that is explained by such an '
    'equal twin gets its own signature (get_namespace/equal-type-parameters-share-one-slot) and does not stop the run',
    'removing a name that is not present is a documented no-op (_remove_entity tests for it) and is exercised; '
    'remove_namespace and Program.update_declarations (direct table surgery) are outside the property',
    'where the property is silent nothing is demanded: order of path/glob results, which of several same-named glob '
    'candidates is returned, order of find_namespaces, empty tables in get_declarations_in, get_parent_class',
    'insertion order after overwriting a live name in place is ambiguous (first or last insertion) and not judged for '
    'that entry until it is removed and re-added',
]
MIN_NONTRIVIAL = {'quick': 200, 'thorough': 4000}
NSHARDS = 16
RUNS = {'quick': 1024, 'thorough': 20000}
STEPS = {'quick': 40, 'thorough': 60}
MAX_NAMESPACES = 16
MAX_DEPTH = 6
MAX_SHRINKS_PER_SHARD = 6

ROOT = ('global',)
KINDS = ('types', 'funcs', 'lambdas', 'vars', 'classes')
MAPS = KINDS + ('decls',)
IN_DECLS = ('funcs', 'vars', 'classes')
GETTER = {'types': 'get_types', 'funcs': 'get_funcs', 'lambdas': 'get_lambdas', 'vars': 'get_vars',
          'classes': 'get_classes', 'decls': 'get_declarations'}
ADDER = {'types': 'add_type', 'funcs': 'add_func', 'lambdas': 'add_lambda', 'vars': 'add_var',
         'classes': 'add_class'}
REMOVER = {'types': 'remove_type', 'funcs': 'remove_func', 'lambdas': 'remove_lambda', 'vars': 'remove_var',
           'classes': 'remove_class'}
POOL = {'types': ['T', 'S', 'R'], 'funcs': ['f', 'g', 'h', 'k'], 'lambdas': ['lambda_0', 'lambda_1', 'lambda_2'],
        'vars': ['x', 'y', 'z', 'w', 'v', 'u'], 'classes': ['A', 'B', 'C']}
BLOCKS = ['true_block', 'false_block']


def shards(tier):
    return [{'part': k} for k in range(NSHARDS)]


# ------------------------------------------------------------------ library
_lib = None


class _Lib:
    pass


def lib():
    global _lib
    if _lib is None:
        boot.init_types_only()
        from src.ir import ast, types as tp, kotlin_types as kt, context as ctxmod
        L = _Lib()
        L.ast, L.tp, L.kt, L.ctxmod = ast, tp, kt, ctxmod
        L.variances = [tp.Invariant, tp.Covariant, tp.Contravariant]
        L.bounds = [None, kt.Number, kt.Any]
        assert ast.GLOBAL_NAMESPACE == ROOT
        _lib = L
    return _lib


def make_decl(kind, name, spec):
    """A real declaration object of the given kind (as the generator builds them)."""
    L = lib()
    ast, kt = L.ast, L.kt
    if kind == 'vars':
        v = spec % 3
        if v == 0:
            return ast.VariableDeclaration(name, ast.BottomConstant(kt.Integer), var_type=kt.Integer)
        if v == 1:
            return ast.ParameterDeclaration(name, kt.String)
        return ast.FieldDeclaration(name, kt.Integer)
    if kind == 'funcs':
        ft = ast.FunctionDeclaration.FUNCTION if spec % 2 == 0 else ast.FunctionDeclaration.CLASS_METHOD
        return ast.FunctionDeclaration(name, [], kt.Unit, None, ft, type_parameters=[])
    if kind == 'classes':
        return ast.ClassDeclaration(name, [], class_type=spec % 3, fields=[], functions=[], type_parameters=[])
    if kind == 'lambdas':
        return ast.Lambda(name, [], kt.Unit, None, None)
    if kind == 'types':
        vi, bi = type_spec(spec)
        return L.tp.TypeParameter(name, L.variances[vi], L.bounds[bi])
    raise ValueError(kind)


def type_spec(spec):
    if isinstance(spec, (list, tuple)):
        return spec[0] % 3, spec[1] % 3
    return spec % 3, (spec // 3) % 3


# ---------------------------------------------------------------- the model
def maps_of(kind):
    return (kind, 'decls') if kind in IN_DECLS else (kind,)


def is_prefix(p, ns):
    return len(p) <= len(ns) and ns[:len(p)] == p


class Model:
    """Association lists: tab[ns][map] = [[name, key, overwritten_in_place], ...]."""

    def __init__(self):
        self.tab = {}
        self.known = [ROOT]
        self.rec = {}      # key -> [number of additions, namespace of the first addition, state]
        self.dead = set()  # keys removed or overwritten at least once
        self.gone = {}     # (ns, map) -> names removed at least once
        self.names = {m: [] for m in MAPS}
        self.shadow = False

    def know(self, ns):
        if ns not in self.known:
            self.known.append(ns)

    def entries(self, ns, m):
        return self.tab.get(ns, {}).get(m, [])

    def find(self, ns, m, name):
        for e in self.entries(ns, m):
            if e[0] == name:
                return e
        return None

    def add(self, kind, ns, name, key):
        r = self.rec.setdefault(key, [0, ns, 'live'])
        r[0] += 1
        for m in maps_of(kind):
            lst = self.tab.setdefault(ns, {}).setdefault(m, [])
            for e in lst:
                if e[0] == name:
                    if e[1] != key:
                        self.rec[e[1]][2] = 'tainted'
                        self.dead.add(e[1])
                    e[1] = key
                    e[2] = True
                    break
            else:
                lst.append([name, key, False])
            if name not in self.names[m]:
                self.names[m].append(name)
        self.know(ns)
        for other in self.tab:
            if other != ns and (is_prefix(other, ns) or is_prefix(ns, other)) and self.find(other, kind, name):
                self.shadow = True

    def remove(self, kind, ns, name):
        """Returns the key that was bound in the kind's own map (None when absent)."""
        hit = None
        for m in maps_of(kind):
            lst = self.entries(ns, m)
            for i, e in enumerate(lst):
                if e[0] == name:
                    r = self.rec[e[1]]
                    if m == kind:
                        hit = e[1]
                        r[2] = 'removed' if (r[0] == 1 and r[2] == 'live') else 'tainted'
                    elif e[1] != hit:
                        r[2] = 'tainted'
                    self.dead.add(e[1])
                    self.gone.setdefault((ns, m), set()).add(name)
                    del lst[i]
                    break
        return hit

    def path(self, ns, m):
        """name -> (key, holder): innermost namespace on the path that has the name."""
        out = {}
        for i in range(len(ns), 0, -1):
            p = ns[:i]
            for e in self.entries(p, m):
                if e[0] not in out:
                    out[e[0]] = (e[1], p)
        return out

    def children(self, ns):
        return [ns + (e[0],) for m in ('funcs', 'classes') for e in self.entries(ns, m)]

    def reachable(self, start=ROOT):
        seen = [start]
        i = 0
        while i < len(seen):
            for c in self.children(seen[i]):
                if c not in seen:
                    seen.append(c)
            i += 1
        return seen

    def lookup(self, ns, name, limit=None):
        cur = ns
        while len(cur) >= 1:
            if limit is not None and not is_prefix(limit, cur):
                break
            e = self.find(cur, 'decls', name)
            if e is not None:
                return (cur, e[1])
            cur = cur[:-1]
        return None

    def stale(self, key):
        """Was removed or overwritten and is bound nowhere now."""
        return key in self.dead and not any(e[1] == key for t in self.tab.values() for lst in t.values() for e in lst)

    def live(self):
        return [(ns, k, e[0]) for ns in self.known for k in KINDS for e in self.entries(ns, k)]

    def shadowable(self):
        out = []
        for ns in self.known:
            for i in range(1, len(ns)):
                for k in KINDS:
                    for e in self.entries(ns[:i], k):
                        out.append((ns, k, e[0]))
        return out


# -------------------------------------------------------------- the harness
class _Stop(Exception):
    """Internal: unwinds the comparison after the first recorded violation of a run."""


class _Sink:
    """Collector stand-in used while shrinking."""

    def __init__(self):
        self.violations = {}

    def violation(self, signature, detail, case, size=0):
        self.violations.setdefault(signature, detail)

    def feature(self, *a, **k):
        pass

    def case(self, *a, **k):
        pass

    def max_extra(self, *a, **k):
        pass

    def add_extra(self, *a, **k):
        pass


_shrinks = [0]


def jns(ns):
    return list(ns)


class Harness:
    def __init__(self, col, shrink=False):
        L = lib()
        self.L = L
        self.col = col
        self.shrink = shrink
        self.ctx = L.ctxmod.Context()
        self.m = Model()
        self.ops = []
        self.objs = {}       # oid -> object
        self.keys = {}       # id(object) -> model key
        self.rep = {}        # key -> (object, oid, description)
        self.removed = []    # (ns, kind, name, oid) of removed live entries
        self.eqc = {}        # key of a TypeParameter -> (name, variance, bound): its value-equality class
        self.eq_added = {}   # value-equality class -> keys of the distinct objects added so far
        self.next_oid = 0
        self.stopped = False
        self.flags = {'removal': False, 'readd': False, 'nested': False, 'glob': False, 'overwrite': False}
        self.maxdepth = 1

    # -- plumbing
    def new_oid(self):
        self.next_oid += 1
        return self.next_oid

    def key_of(self, obj):
        return self.keys.get(id(obj))

    def d(self, x):
        """JSON-able description of a value returned by the Context or a model key."""
        if x is None:
            return None
        if isinstance(x, tuple) and x and x[0] == 'n':
            k = x
        else:
            k = self.keys.get(id(x))
        if k is None:
            return 'unknown:' + repr(x)[:60]
        return self.rep[k][2]

    def bad(self, sig, detail, stop=True):
        """Record a violation; by default the run stops comparing afterwards.  stop=False is used for one
        well-understood signature only, so that it does not hide what lies behind it."""
        sig = 'C16/' + sig
        ops = [list(o) for o in self.ops]
        if self.shrink and sig not in self.col.violations and _shrinks[0] < MAX_SHRINKS_PER_SHARD:
            _shrinks[0] += 1
            ops, det = shrink_ops(ops, sig)
            if det is not None:
                detail = det
        self.col.violation(sig, detail, {'ops': ops}, size=len(ops))
        if stop:
            self.stopped = True
            raise _Stop()

    def call(self, q, fn, *a, **kw):
        try:
            return fn(*a, **kw)
        except Exception as e:  # every query and update is total on the domain
            self.bad('%s/raises' % q, {'query': q, 'args': _j(a), 'exception': '%s: %s' % (type(e).__name__, e)})

    def do(self, op):
        """Execute one operation on the Context and the model, then compare."""
        if self.stopped:
            return
        op = list(op)
        self.ops.append(op)
        try:
            getattr(self, 'op_' + op[0])(*op[1:])
            self.sweep()
        except _Stop:
            pass

    # -- operations
    def op_add(self, kind, ns, name, spec, oid):
        ns = tuple(ns)
        obj = self.objs.get(oid)
        if obj is None:
            obj = make_decl(kind, name, spec)
            self.objs[oid] = obj
            if oid >= self.next_oid:
                self.next_oid = oid
            key = ('n', oid)
            self.keys[id(obj)] = key
            self.rep[key] = (obj, oid, '%s:%s#%d' % (kind, name, oid))
            if kind == 'types':
                self.eqc[key] = (name,) + type_spec(spec)
        else:
            name = obj.name
        key = self.keys[id(obj)]
        if key in self.eqc:
            self.eq_added.setdefault(self.eqc[key], set()).add(key)
        had = self.m.find(ns, kind, name) is not None
        if had:
            self.flags['overwrite'] = True
        elif name in self.m.gone.get((ns, kind), ()):
            self.flags['readd'] = True
        if len(ns) >= 2:
            self.flags['nested'] = True
        self.maxdepth = max(self.maxdepth, len(ns) + (1 if kind in ('funcs', 'classes') else 0))
        self.call(ADDER[kind], getattr(self.ctx, ADDER[kind]), ns, name, obj)
        self.m.add(kind, ns, name, key)
        if kind in ('funcs', 'classes', 'lambdas'):
            self.m.know(ns + (name,))
        self.col.feature('op_add_' + kind)

    def op_remove(self, kind, ns, name):
        ns = tuple(ns)
        self.call(REMOVER[kind], getattr(self.ctx, REMOVER[kind]), ns, name)
        hit = self.m.remove(kind, ns, name)
        if hit is not None:
            self.flags['removal'] = True
            self.removed.append((ns, kind, name, self.rep[hit][1]))
            self.col.feature('op_remove_' + kind)
        else:
            self.col.feature('op_remove_absent_' + kind)

    def op_block(self, ns):
        self.m.know(tuple(ns))
        self.maxdepth = max(self.maxdepth, len(ns))
        self.col.feature('op_open_block')

    def op_q(self, what, *a):
        self.col.feature('op_query_' + what)
        getattr(self, 'q_' + what)(*a)

    # -- explicit queries
    def q_glob(self, m, ns, none):
        self.flags['glob'] = True
        ns = tuple(ns)
        act = self.call(GETTER[m] + '-glob', getattr(self.ctx, GETTER[m]), ns, glob=True, none=bool(none))
        self.cmp_glob(m, ns, act)

    def q_nsdecls(self, ns, name, m, mode):
        """mode 0: default (glob), 1: glob=True, 2: glob=False (walk from ns)."""
        ns = tuple(ns)
        if mode != 2:
            self.flags['glob'] = True
        q = 'get_namespaces_decls' + ('-subtree' if mode == 2 else '')
        kw = {} if mode == 0 else {'glob': mode == 1}
        act = self.call(q, self.ctx.get_namespaces_decls, ns, name, m, **kw)
        self.cmp_nsdecls(q, ns if mode == 2 else ROOT, name, m, act)

    def q_limit(self, ns, name, limit):
        ns, limit = tuple(ns), tuple(limit)
        act = self.call('get_decl-limit', self.L.ctxmod.get_decl, self.ctx, ns, name, limit=limit)
        self.cmp_lookup('get_decl-limit', ns, name, act, self.m.lookup(ns, name, limit), {'limit': jns(limit)})

    def q_at(self, ns):
        """Everything the sweep asks, at an arbitrary (possibly never populated) namespace."""
        self.sweep_namespace(tuple(ns), with_none=True)

    def q_decls_in(self, ns):
        ns = tuple(ns)
        q = 'get_declarations_in'
        act = self.call(q, self.ctx.get_declarations_in, ns)
        if not hasattr(act, 'items'):
            self.bad(q + '/not-a-mapping', {'query': q, 'namespace': jns(ns), 'got': repr(act)[:80]})
        act = {k: v for k, v in act.items() if len(v)}
        want = [n2 for n2 in self.m.tab if is_prefix(ns, n2) and self.m.entries(n2, 'decls')]
        for n2 in want:
            if n2 not in act:
                self.bad(q + '/missing-namespace', {'query': q, 'namespace': jns(ns), 'missing': jns(n2)})
        for n2 in act:
            if n2 not in want:
                self.bad(q + '/extra-namespace', {'query': q, 'namespace': jns(ns), 'extra': _j(n2)})
        for n2 in want:
            self.cmp_current(q, n2, 'decls', act[n2])

    def q_find_ns(self, ns, none):
        ns = tuple(ns)
        q = 'find_namespaces'
        act = self.call(q, self.ctx.find_namespaces, ns, bool(none))
        try:
            got = sorted(set(tuple(x) for x in act))
        except Exception:
            self.bad(q + '/malformed', {'query': q, 'namespace': jns(ns), 'got': repr(act)[:80]})
        want = sorted(set(self.m.children(ns)))
        if got != want:
            kind = 'missing' if [w for w in want if w not in got] else 'extra'
            self.bad(q + '/' + kind, {'query': q, 'namespace': jns(ns), 'got': _j(got), 'want': _j(want)})

    # -- comparisons
    def as_items(self, q, ns, act):
        if not hasattr(act, 'items') or not hasattr(act, 'keys'):
            self.bad(q + '/not-a-mapping', {'query': q, 'namespace': jns(ns), 'got': repr(act)[:80]})
        return list(act.items())

    def cmp_current(self, q, ns, m, act):
        items = self.as_items(q, ns, act)
        want = self.m.entries(ns, m)
        wn = {e[0]: e for e in want}
        an = dict(items)
        base = {'query': q, 'namespace': jns(ns), 'got': [[k, self.d(v)] for k, v in items],
                'want': [[e[0], self.d(e[1])] for e in want]}
        for k, v in items:
            if k not in wn:
                stale = k in self.m.gone.get((ns, m), ())
                self.bad('%s/%s' % (q, 'stale-after-remove' if stale else 'extra-entry'), dict(base, name=k))
        for e in want:
            if e[0] not in an:
                self.bad(q + '/missing-entry', dict(base, name=e[0]))
        for e in want:
            if self.key_of(an[e[0]]) != e[1]:
                old = self.m.stale(self.key_of(an[e[0]]))
                self.bad('%s/%s' % (q, 'not-most-recent' if old else 'wrong-value'), dict(base, name=e[0]))
        worder = [e[0] for e in want if not e[2]]
        aorder = [k for k, _ in items if not wn[k][2]]
        if worder != aorder:
            self.bad(q + '/insertion-order', base)

    def cmp_path(self, q, ns, m, act):
        items = self.as_items(q, ns, act)
        want = self.m.path(ns, m)
        an = dict(items)
        base = {'query': q, 'namespace': jns(ns), 'got': sorted([k, self.d(v)] for k, v in items),
                'want': sorted([k, self.d(v[0]), jns(v[1])] for k, v in want.items())}
        for k, v in items:
            if k not in want:
                stale = any(k in self.m.gone.get((ns[:i], m), ()) for i in range(1, len(ns) + 1))
                self.bad('%s/%s' % (q, 'stale-after-remove' if stale else 'extra-entry'), dict(base, name=k))
        for k in want:
            if k not in an:
                self.bad(q + '/missing-entry', dict(base, name=k))
        for k, (key, holder) in want.items():
            got = self.key_of(an[k])
            if got != key:
                outer = [e[1] for i in range(1, len(holder)) for e in [self.m.find(ns[:i], m, k)] if e]
                if got in outer:
                    what = 'shadowing'
                elif self.m.stale(got):
                    what = 'not-most-recent'
                else:
                    what = 'wrong-value'
                self.bad('%s/%s' % (q, what), dict(base, name=k))

    def cmp_glob(self, m, ns, act):
        q = GETTER[m] + '-glob'
        items = self.as_items(q, ns, act)
        reach = self.m.reachable()
        cands = {}
        for r in reach:
            for e in self.m.entries(r, m):
                cands.setdefault(e[0], []).append(e[1])
        an = dict(items)
        base = {'query': q, 'namespace': jns(ns), 'got': sorted([k, self.d(v)] for k, v in items),
                'want': sorted([k, [self.d(c) for c in cs]] for k, cs in cands.items()),
                'reachable': [jns(r) for r in reach]}
        for k, v in items:
            if k not in cands:
                unreach = [n2 for n2 in self.m.tab if n2 not in reach and self.m.find(n2, m, k)]
                if unreach:
                    what = 'unreachable-namespace'
                elif any(k in self.m.gone.get((n2, m), ()) for n2 in self.m.tab):
                    what = 'stale-after-remove'
                else:
                    what = 'extra-entry'
                self.bad('%s/%s' % (q, what), dict(base, name=k))
        for k in cands:
            if k not in an:
                self.bad(q + '/missing-entry', dict(base, name=k))
        for k, cs in cands.items():
            if self.key_of(an[k]) not in cs:
                self.bad(q + '/value-not-a-candidate', dict(base, name=k))

    def cmp_nsdecls(self, q, start, name, m, act):
        try:
            got = set((tuple(n2), self.key_of(dd)) for n2, dd in act)
            shown = sorted([jns(n2), self.d(dd)] for n2, dd in act)
        except Exception:
            self.bad(q + '/malformed', {'query': q, 'got': repr(act)[:80]})
        want = set()
        for r in self.m.reachable(start):
            e = self.m.find(r, m, name)
            if e is not None:
                want.add((r + (name,), e[1]))
        if got != want:
            base = {'query': q, 'from': jns(start), 'name': name, 'map': m, 'got': shown,
                    'want': sorted([jns(n2), self.d(k)] for n2, k in want)}
            if want - got:
                self.bad(q + '/missing', base)
            stale = any(self.m.stale(k) for _, k in got - want)
            self.bad('%s/%s' % (q, 'stale-after-remove' if stale else 'extra'), base)

    def cmp_lookup(self, q, ns, name, act, want, more=None):
        base = dict(more or {}, query=q, namespace=jns(ns), name=name,
                    want=None if want is None else [jns(want[0]), self.d(want[1])])
        if act is None:
            if want is not None:
                self.bad(q + '/missing', dict(base, got=None))
            return
        try:
            holder, decl = act
            holder = tuple(holder)
        except Exception:
            self.bad(q + '/malformed', dict(base, got=repr(act)[:80]))
        got = self.key_of(decl)
        base['got'] = [jns(holder), self.d(decl)]
        if want is None:
            self.bad('%s/%s' % (q, 'stale-after-remove' if self.m.stale(got) else 'unexpected'), base)
        if holder != want[0]:
            if is_prefix(holder, want[0]):
                self.bad(q + '/not-innermost', base)
            self.bad('%s/%s' % (q, 'stale-after-remove' if self.m.stale(got) else 'wrong-namespace'), base)
        if got != want[1]:
            self.bad('%s/%s' % (q, 'not-most-recent' if self.m.stale(got) else 'wrong-value'), base)

    def cmp_value(self, q, ns, name, act, wantkey):
        """Single-namespace lookups returning the declaration or None."""
        got = None if act is None else self.key_of(act)
        if act is None and wantkey is None:
            return
        if act is not None and got == wantkey:
            return
        base = {'query': q, 'namespace': jns(ns), 'name': name, 'got': self.d(act), 'want': self.d(wantkey)}
        if wantkey is None:
            self.bad('%s/%s' % (q, 'stale-after-remove' if self.m.stale(got) else 'unexpected'), base)
        if act is None:
            self.bad(q + '/missing', base)
        self.bad('%s/%s' % (q, 'not-most-recent' if self.m.stale(got) else 'wrong-value'), base)

    # -- the sweep after every operation
    def sweep_namespace(self, ns, with_none=False):
        ctx, m = self.ctx, self.m
        for mp in MAPS:
            g = getattr(ctx, GETTER[mp])
            q = GETTER[mp]
            self.cmp_current(q + '-current', ns, mp, self.call(q + '-current', g, ns, True))
            self.cmp_path(q + '-path', ns, mp, self.call(q + '-path', g, ns))
            if with_none:
                self.cmp_current(q + '-current', ns, mp,
                                 self.call(q + '-current', g, ns, only_current=True, none=True))
                self.cmp_path(q + '-path', ns, mp, self.call(q + '-path', g, ns, none=True))
        moddecl = self.L.ctxmod.get_decl
        for name in m.names['decls']:
            e = m.find(ns, 'decls', name)
            act = self.call('Context.get_decl', ctx.get_decl, ns, name)
            self.cmp_value('Context.get_decl', ns, name, act, e[1] if e else None)
            act = self.call('get_decl', moddecl, ctx, ns, name)
            self.cmp_lookup('get_decl', ns, name, act, m.lookup(ns, name))
            if with_none:
                t = self.call('get_decl_type', ctx.get_decl_type, ns, name)
                wt = type(self.rep[e[1]][0]) if e else type(None)
                if t is not wt:
                    self.bad('get_decl_type/wrong-type', {'query': 'get_decl_type', 'namespace': jns(ns),
                                                          'name': name, 'got': repr(t), 'want': repr(wt)})
        for name in m.names['lambdas']:
            e = m.find(ns, 'lambdas', name)
            self.cmp_value('get_lambda', ns, name, self.call('get_lambda', ctx.get_lambda, ns, name),
                           e[1] if e else None)
        e = m.find(ns[:-2], 'decls', ns[-2]) if len(ns) >= 2 else None
        self.cmp_value('get_parent', ns, ns[-2] if len(ns) >= 2 else '',
                       self.call('get_parent', ctx.get_parent, ns), e[1] if e else None)

    def sweep(self):
        for ns in self.m.known:
            self.sweep_namespace(ns)
        for mp in MAPS:
            self.cmp_glob(mp, ROOT, self.call(GETTER[mp] + '-glob', getattr(self.ctx, GETTER[mp]), ROOT, glob=True))
        for key, (adds, ns, state) in self.m.rec.items():
            if adds != 1 or state == 'tainted':
                continue
            obj = self.rep[key][0]
            act = self.call('get_namespace', self.ctx.get_namespace, obj)
            want = ns if state == 'live' else None
            if act != want and len(self.eq_added.get(self.eqc.get(key), ())) > 1:
                # another TypeParameter object that compares equal was registered somewhere: the reverse map
                # is keyed by __eq__/__hash__, so the two declarations share one slot
                twins = sorted(self.d(k) for k in self.eq_added[self.eqc[key]] if k != key)
                self.m.rec[key][2] = 'tainted'
                self.bad('get_namespace/equal-type-parameters-share-one-slot',
                         {'query': 'get_namespace', 'decl': self.d(key), 'got': _j(act),
                          'want': None if want is None else jns(want), 'equal_declarations': twins}, stop=False)
                continue
            if state == 'live' and act != ns:
                self.bad('get_namespace/%s' % ('lost' if act is None else 'wrong-namespace'),
                         {'query': 'get_namespace', 'decl': self.d(key), 'got': _j(act), 'want': jns(ns)})
            if state == 'removed' and act is not None:
                self.bad('get_namespace/still-mapped-after-remove',
                         {'query': 'get_namespace', 'decl': self.d(key), 'got': _j(act), 'want': None})

    def final(self):
        """End of a run: the global queries for every map and every name in use."""
        if self.stopped:
            return
        try:
            for mp in MAPS:
                for name in self.m.names[mp]:
                    act = self.call('get_namespaces_decls', self.ctx.get_namespaces_decls, ROOT, name, mp)
                    self.cmp_nsdecls('get_namespaces_decls', ROOT, name, mp, act)
        except _Stop:
            pass

    def finish_run(self):
        self.final()
        col, f = self.col, self.flags
        nontrivial = f['removal'] and f['nested'] and self.m.shadow
        ops = self.ops
        col.case(key=hashlib.sha1(json.dumps(ops, sort_keys=True).encode()).hexdigest()[:20],
                 nontrivial=nontrivial,
                 sample=lambda: {'n_ops': len(ops), 'first_ops': [_show(o) for o in ops[:14]],
                                 'namespaces': [jns(n) for n in self.m.known]})
        col.feature('histories')
        col.feature('ops_total', len(ops))
        for name, on in (('removal', f['removal']), ('readd', f['readd']), ('shadowing', self.m.shadow),
                         ('glob_query', f['glob']), ('overwrite', f['overwrite']), ('nested_namespace', f['nested'])):
            if on:
                col.feature('histories_with_' + name)
        col.feature('histories_max_depth_%d' % self.maxdepth)
        col.max_extra('max_namespace_depth', self.maxdepth)
        col.max_extra('max_namespaces', len(self.m.known))
        if self.stopped:
            col.feature('histories_stopped_at_violation')


def _show(op):
    if op[0] == 'add':
        return 'add %s %s in %s%s' % (op[1][:-1], op[3], '.'.join(op[2]), ' #%d' % op[5])
    if op[0] == 'remove':
        return 'remove %s %s in %s' % (op[1][:-1], op[3], '.'.join(op[2]))
    return ' '.join(str(x) if not isinstance(x, list) else '.'.join(map(str, x)) for x in op)


def _j(x):
    if isinstance(x, (tuple, list, set, frozenset)):
        return [_j(y) for y in x]
    if x is None or isinstance(x, (str, int, float, bool)):
        return x
    return repr(x)[:60]


# ----------------------------------------------------------------- shrinking
def _signatures(ops):
    sink = _Sink()
    h = Harness(sink)
    for op in ops:
        h.do(op)
    h.final()
    return sink.violations


def shrink_ops(ops, sig):
    """Greedy one-operation deletion keeping the signature (operations are total, so any sub-list is a history)."""
    det = None
    for _ in range(3):
        changed = False
        i = len(ops) - 1
        while i >= 0:
            cand = ops[:i] + ops[i + 1:]
            v = _signatures(cand)
            if sig in v:
                ops, det, changed = cand, v[sig], True
            i -= 1
        if not changed:
            break
    return ops, det


# --------------------------------------------------------------- the machine
def pick(lst, i):
    return lst[i % len(lst)]


def make_machine(col, shrink=True):
    from hypothesis import strategies as st
    from hypothesis.stateful import RuleBasedStateMachine, precondition, rule

    I = st.integers(0, 9999)

    class C16Machine(RuleBasedStateMachine):
        def __init__(self):
            super().__init__()
            self.h = Harness(col, shrink=shrink)

        # helpers
        def room(self, ns, name):
            """May a declaration owning the namespace ns+(name,) be added?"""
            child = ns + (name,)
            return child in self.h.m.known or (len(self.h.m.known) < MAX_NAMESPACES and len(child) <= MAX_DEPTH)

        def add(self, kind, ns, name, spec, oid=None):
            if kind in ('funcs', 'classes', 'lambdas') and not self.room(ns, name):
                kind, name = 'vars', pick(POOL['vars'], spec)
            self.h.do(['add', kind, jns(ns), name, spec, self.h.new_oid() if oid is None else oid])

        def ns(self, i):
            known = self.h.m.known
            # bias towards the deeper half of the tree every other draw
            if i % 2 and len(known) > 2:
                deep = [n for n in known if len(n) >= 2]
                return pick(deep, i // 2)
            return pick(known, i // 2)

        # growth
        @rule(i=I, j=I, s=I)
        def add_func(self, i, j, s):
            self.add('funcs', self.ns(i), pick(POOL['funcs'], j), s % 2)

        @rule(i=I, j=I, s=I)
        def add_class(self, i, j, s):
            self.add('classes', self.ns(i), pick(POOL['classes'], j), s % 3)

        @rule(i=I, j=I)
        def add_lambda(self, i, j):
            self.add('lambdas', self.ns(i), pick(POOL['lambdas'], j), 0)

        @rule(i=I, j=I, s=I)
        def add_var(self, i, j, s):
            self.add('vars', self.ns(i), pick(POOL['vars'], j), s % 3)

        @rule(i=I, j=I, s=I)
        def add_type(self, i, j, s):
            self.add('types', self.ns(i), pick(POOL['types'], j), s % 9)

        @precondition(lambda self: len(self.h.m.known) < MAX_NAMESPACES)
        @rule(i=I, j=I)
        def open_block(self, i, j):
            ns = self.ns(i)
            if len(ns) < MAX_DEPTH:
                self.h.do(['block', jns(ns + (pick(BLOCKS, j),))])

        # shadowing, overwriting, removal, re-adding
        @precondition(lambda self: bool(self.h.m.shadowable()))
        @rule(i=I, s=I)
        def shadow(self, i, s):
            ns, kind, name = pick(self.h.m.shadowable(), i)
            self.add(kind, ns, name, s % 9)

        @precondition(lambda self: bool(self.h.m.live()))
        @rule(i=I, s=I)
        def overwrite(self, i, s):
            ns, kind, name = pick(self.h.m.live(), i)
            self.add(kind, ns, name, s % 9)

        @precondition(lambda self: bool(self.h.m.live()))
        @rule(i=I)
        def remove(self, i):
            ns, kind, name = pick(self.h.m.live(), i)
            self.h.do(['remove', kind, jns(ns), name])

        @precondition(lambda self: bool(self.h.m.live()))
        @rule(i=I)
        def remove_inner_first(self, i):
            """Remove a name from the innermost namespace that shadows / is nested (prefers depth)."""
            live = sorted(self.h.m.live(), key=lambda t: -len(t[0]))
            ns, kind, name = pick(live[:max(1, len(live) // 2)], i)
            self.h.do(['remove', kind, jns(ns), name])

        @rule(i=I, j=I, k=I)
        def remove_absent(self, i, j, k):
            """Remove, in ns, a name that ns does not have (preferably one an enclosing namespace has)."""
            ns = self.ns(i)
            kind = pick(KINDS, j)
            m = self.h.m
            outer = [e[0] for a in range(1, len(ns)) for e in m.entries(ns[:a], kind) if not m.find(ns, kind, e[0])]
            name = pick(outer, k) if outer else pick(POOL[kind], k)
            self.h.do(['remove', kind, jns(ns), name])

        @precondition(lambda self: bool(self.h.removed))
        @rule(i=I, same=st.booleans(), s=I)
        def readd(self, i, same, s):
            ns, kind, name, oid = pick(self.h.removed, i)
            self.add(kind, ns, name, s % 9, oid if same else None)

        @precondition(lambda self: bool(self.h.objs))
        @rule(i=I, j=I)
        def add_same_object_elsewhere(self, i, j):
            """Parameters / type parameters are registered in more than one namespace by real callers."""
            oids = sorted(self.h.objs)
            oid = pick(oids, i)
            obj = self.h.objs[oid]
            kind = self.h.rep[self.h.keys[id(obj)]][2].split(':')[0]
            if kind not in ('vars', 'types'):
                return
            self.h.do(['add', kind, jns(self.ns(j)), obj.name, 0, oid])

        # explicit queries
        @rule(m=st.sampled_from(MAPS), i=I, none=st.booleans())
        def q_glob(self, m, i, none):
            self.h.do(['q', 'glob', m, jns(self.ns(i)), none])

        @rule(i=I, m=st.sampled_from(MAPS), j=I, mode=st.integers(0, 2))
        def q_nsdecls(self, i, m, j, mode):
            names = self.h.m.names[m] or POOL.get(m, POOL['vars'])
            self.h.do(['q', 'nsdecls', jns(self.ns(i)), pick(names, j), m, mode])

        @rule(i=I, j=I, l=I)
        def q_limit(self, i, j, l):
            ns = self.ns(i)
            names = self.h.m.names['decls'] or POOL['vars']
            limits = [ns[:a] for a in range(1, len(ns) + 1)] + [pick(self.h.m.known, l // 7)]
            self.h.do(['q', 'limit', jns(ns), pick(names, j), jns(pick(limits, l))])

        @rule(i=I, j=I, what=st.integers(0, 3), none=st.booleans())
        def q_misc(self, i, j, what, none):
            ns = self.ns(i)
            if what == 0:   # a namespace nobody declared or populated
                self.h.do(['q', 'at', jns(ns + (pick(['nowhere', 'f', 'A', 'true_block'], j),))])
            elif what == 1:
                self.h.do(['q', 'at', jns(ns)])
            elif what == 2:
                self.h.do(['q', 'decls_in', jns(ns)])
            else:
                self.h.do(['q', 'find_ns', jns(ns), none])

        def teardown(self):
            self.h.finish_run()

    return C16Machine


def run_shard(spec, col):
    import hypothesis
    from hypothesis.stateful import run_state_machine_as_test
    from vlib import hyp
    lib()
    tier = col.tier
    n = RUNS[tier] // NSHARDS
    machine = hypothesis.seed(col.shard_seed())(make_machine(col))
    run_state_machine_as_test(machine, settings=hyp.make_settings(n, stateful_step_count=STEPS[tier]))


def finish(tier, cov):
    f = cov.get('features', {})
    h = max(1, f.get('histories', 0))
    return {'steps_per_history': STEPS[tier], 'mean_ops_per_history': round(f.get('ops_total', 0) / h, 1),
            'comparison': 'all current/path queries of 6 maps x all known namespaces, both get_decl forms, get_lambda, '
                          'get_parent, glob of 6 maps and every reverse lookup after every operation; get_namespaces_decls for all '
                          'names at the end of a run'}


def replay(case, col):
    lib()
    h = Harness(col)
    for op in case['ops']:
        h.do(op)
    h.finish_run()
