"""C10 — type unification returns a unifier or nothing.

Pairs (target, pattern) are built *constructively* over Hypothesis-drawn
class tables: a ground target type is generalised into a pattern by replacing
sub-components with type variables (repeated variables for equal components,
optionally bounded), so that a unifier exists by construction; perturbations
(one leaf changed, a repeated variable over different components, a violated
bound, swapped constructors) and unrelated random pairs cover the negative
side.  Supertype-matching mode uses an instance of a subclass whose declared
supertype instantiates the pattern's class.
Oracle for every non-empty result m = unify_types(target, pattern):
  apply m to the pattern with the reference substitution and compare with the
  target (supertype mode: with a transitive supertype of the target) up to
  variables m leaves open; at each open position the target's component must
  satisfy that variable's bound; every m[v] must satisfy v's bound."""
from hypothesis import strategies as st

from vlib import boot, fuzz, hyp, rm, tg

LEVEL = 'exploration'
RULE = ('case = (class table, target, pattern, mode); constructive generalisation of ground targets (depth <= 3, projections, '
        'repeated and bounded variables), perturbed variants, random unrelated pairs, supertype mode via declared supertypes; '
        'non-trivial = unify_types returned a non-empty assignment with >= 2 bindings or a nested / bounded variable; '
        'distinct = distinct (table, target, pattern, mode)')
ASSUMPTIONS = [
    'bounds are judged with the reference relation RM after applying the returned assignment to the bound',
    'variables are identified by name (a pattern uses each name with one bound)',
]
MIN_NONTRIVIAL = {'quick': 400, 'thorough': 20000}
NSHARDS = 16
LANGS = ['kotlin', 'java', 'scala', 'groovy']
VN = ['T', 'U', 'W', 'X']


def shards(tier):
    return [{'k': k, 'lang': LANGS[k % 4]} for k in range(NSHARDS)]


def subterms(t, path=()):
    """(path, subterm) of all type positions (arguments, inside projections - also nested ones; a projection that is
    itself the bound of a projection is a position, a projection argument is not).  Path elements: argument index, or
    'p' = into the bound of a projection."""
    out = [(path, t)]
    if t[0] == 'i':
        for i, a in enumerate(t[2]):
            if a[0] == 'star':
                continue
            sub = subterms(a, path + (i,))
            out += sub[1:] if a[0] == 'p' else sub
    elif t[0] == 'p':
        out += subterms(t[2], path + ('p',))
    return out


def replace_at(t, path, new):
    if not path:
        return new
    if path[0] == 'p':
        return ('p', t[1], replace_at(t[2], path[1:], new))
    args = list(t[2])
    args[path[0]] = replace_at(args[path[0]], path[1:], new)
    return ('i', t[1], tuple(args))


def subst_syn(t, th):
    """Syntactic substitution (what "applying the assignment to the pattern" means): a projection substituted under a
    projection stays nested, as in the implementation's own substitute_type; rm.subst would compose the variances."""
    if t is None:
        return None
    k = t[0]
    if k == 'v':
        if t[1] in th:
            return th[t[1]]
        return ('v', t[1], subst_syn(t[2], th)) if t[2] is not None else t
    if k == 'i':
        return ('i', t[1], tuple(subst_syn(a, th) for a in t[2]))
    if k == 'p':
        return ('p', t[1], subst_syn(t[2], th))
    return t


@st.composite
def cases(draw, lang):
    u = draw(tg.universes(lang, max_classes=5))
    R = rm.RM(u.table)
    mode = draw(st.sampled_from(['same', 'same', 'super']))
    # supertype mode: no use-site projections in the target (how projections travel into supertypes is C06's subject)
    t = draw(tg.types(u, R, depth=draw(st.integers(1, 3)), force_generic=True, star=False, proj=(mode == 'same')))
    if t is None or t[0] != 'i' or not R.wf(t):
        t = u.builtins[1][0]
    if draw(st.integers(0, 7)) == 0:
        # a lone (possibly bounded) type variable as pattern
        tt = draw(tg.types(u, R, depth=2, proj=False))
        if tt is None or rm.is_proj(tt):
            tt = u.builtins[1][0]
        bk = draw(st.sampled_from(['none', 'super', 'unrelated', 'self', 'var-target', 'var-target']))
        bound = None
        if bk == 'var-target':
            # the target is itself a (bounded) type variable: its bound must satisfy the pattern variable's bound
            ground = [x for x in u.ground_base()]
            b1 = draw(st.sampled_from([None] + ground))
            rel = draw(st.sampled_from(['none', 'super-of-target-bound', 'sub-of-target-bound', 'any']))
            b2 = None
            if rel == 'super-of-target-bound' and b1 is not None:
                ups = [x for x in R.all_supers(b1) if not rm.has_kind(x, ('cap',))]
                b2 = draw(st.sampled_from(ups)) if ups else b1
            elif rel == 'sub-of-target-bound' and b1 is not None:
                downs = [x for x in ground if x != b1 and R.sub(x, b1)]
                b2 = draw(st.sampled_from(downs)) if downs else None
            elif rel == 'any':
                b2 = draw(st.sampled_from(ground))
            return u, ('v', 'X', b1), ('v', 'T', b2), mode, 'lone-variable-var-target-' + rel
        if bk == 'super':
            ups = [x for x in R.all_supers(tt) if not rm.has_kind(x, ('cap',))] if tt[0] in ('i', 'c', 'b') else []
            bound = draw(st.sampled_from(ups)) if ups else None
        elif bk == 'unrelated':
            others = [x for x in u.ground_base() if not R.sub(tt, x)]
            bound = draw(st.sampled_from(others)) if others else None
        elif bk == 'self':
            bound = tt
        return u, tt, ('v', 'T', bound), mode, 'lone-variable-' + bk
    if mode == 'same' and draw(st.integers(0, 5)) == 0:
        # a projection whose bound is itself a projection (what substituting {U: in X} into A<out U> produces)
        projs = [pa for pa, x in subterms(t) if pa and pa[-1] == 'p' and not rm.is_proj(x)]
        if projs:
            pa = draw(st.sampled_from(projs))
            inner = [x for q, x in subterms(t) if q == pa][0]
            t = replace_at(t, pa, ('p', draw(st.sampled_from(['out', 'in'])), inner))
    base = t
    if mode == 'super':
        ups = [x for x in R.all_supers(t) if x[0] == 'i' and not rm.has_kind(x, ('cap',))]
        if ups:
            base = draw(st.sampled_from(ups))
        else:
            mode = 'same'
    # generalise
    p = base
    sigma = {}
    declared = {}
    nvars = draw(st.integers(1, 3))
    kind = draw(st.sampled_from(['unifiable', 'unifiable', 'unifiable', 'leaf-changed', 'var-reused', 'bound-violated',
                                 'constructor-swapped', 'unrelated', 'nested-super']))
    if kind == 'nested-super':
        # a *nested* component of the pattern is a proper supertype of the target's component: only the outermost type
        # may be replaced by a supertype (supertype mode), so under an invariant parameter nothing unifies
        subs = []
        for pa, x in subterms(p):
            if pa and x[0] in ('i', 'c'):
                ups = [y for y in R.all_supers(x) if y != x and y[0] == 'i' and not rm.has_kind(y, ('cap',))]
                if ups:
                    subs.append((pa, ups))
        if subs:
            pa, ups = draw(st.sampled_from(subs))
            p = replace_at(p, pa, draw(st.sampled_from(ups)))
    for j in range(nvars):
        subs = [(pa, s) for pa, s in subterms(p) if pa and s[0] != 'v']
        if not subs:
            break
        pa, s = draw(st.sampled_from(subs))
        name = VN[j]
        bound = None
        bk = draw(st.sampled_from(['none', 'none', 'super', 'self', 'param']))
        if bk == 'super':
            ups = [x for x in R.all_supers(s) if not rm.has_kind(x, ('cap',))] if s[0] in ('i', 'c', 'b') else []
            if ups:
                bound = draw(st.sampled_from(ups))
        elif bk == 'self' and not rm.is_proj(s):
            bound = s
        elif bk == 'param' and s[0] == 'i' and s[2]:
            # bound is a parameterized type mentioning a further variable: A<T> with T := s.arg0
            a0 = s[2][0]
            if not rm.is_proj(a0):
                inner = ('v', 'B' + name, None)
                if declared and draw(st.booleans()):
                    # ... or an *earlier pattern variable* (class Foo<X, Y: Bar<X>>): its binding must agree with what
                    # the bound demands, else nothing unifies
                    inner = declared[draw(st.sampled_from(sorted(declared)))]
                bound = ('i', s[1], (inner,) + tuple(s[2][1:]))
        if kind == 'bound-violated' and j == 0 and not rm.is_proj(s):
            others = [x for x in u.ground_base() if not R.sub(s, x)]
            if others:
                bound = draw(st.sampled_from(others))
        v = ('v', name, bound)
        sigma[name] = s
        declared[name] = v
        p = replace_at(p, pa, v)
        # repeated variable: other occurrences of the same component
        if draw(st.booleans()):
            for pa2, s2 in subterms(p):
                if pa2 and s2 == s and draw(st.booleans()):
                    p = replace_at(p, pa2, v)
    if kind == 'var-reused' and sigma:
        subs = [(pa, s) for pa, s in subterms(p) if pa and s[0] != 'v' and s not in sigma.values()]
        if subs:
            pa, s = draw(st.sampled_from(subs))
            name = sorted(sigma)[0]
            vs = [x for _, x in subterms(p) if x[0] == 'v' and x[1] == name]
            if vs:
                p = replace_at(p, pa, vs[0])
    if kind == 'leaf-changed':
        subs = [(pa, s) for pa, s in subterms(t) if pa and s[0] in ('b', 'c')]
        if subs:
            pa, s = draw(st.sampled_from(subs))
            others = [x for x in u.ground_base() if x != s]
            t = replace_at(t, pa, draw(st.sampled_from(others)))
    if kind == 'constructor-swapped' and p[0] == 'i':
        same_arity = [k for k in u.generics() if k != p[1] and len(u.table.cls[k]['params']) == len(p[2])]
        if same_arity:
            p = ('i', draw(st.sampled_from(same_arity)), p[2])
    if kind == 'unrelated':
        t2 = draw(tg.types(u, R, depth=2, force_generic=True, star=False, proj=(mode == 'same')))
        if t2 is not None and t2[0] == 'i':
            t = t2
    return u, t, p, mode, kind


def judge(u, t, p, mode, kind, col, record=True):
    from src.ir import type_utils as tu
    R = rm.RM(u.table)
    viols = []
    try:
        t_ir, p_ir = u.ir(t), u.ir(p)
    except Exception as e:
        col.feature('harness_ir_build_failed:' + type(e).__name__)
        return viols
    try:
        m = tu.unify_types(t_ir, p_ir, u.factory, same_type=(mode == 'same'))
    except RecursionError:
        col.feature('impl_exception:RecursionError')
        return viols
    except Exception as e:
        col.feature('impl_exception:' + type(e).__name__)
        return viols
    mm = {}
    ok_keys = True
    for k, v in (m or {}).items():
        name = getattr(k, 'name', None)
        tv = rm.to_term(v, None)
        if name in mm and mm[name] != tv:
            ok_keys = False
        mm[name] = tv
    pvars = {x[1]: x for _, x in subterms(p) if x[0] == 'v'}
    for x in list(pvars.values()):
        if x[2] is not None:
            for _, y in subterms(x[2]):
                if y[0] == 'v':
                    pvars.setdefault(y[1], y)
    nontriv = bool(mm) and (len(mm) >= 2 or any(len(pa) >= 2 for pa, x in subterms(p) if x[0] == 'v') or
                            any(pvars.get(n, (0, 0, None))[2] is not None for n in mm))
    if record:
        col.case(key=(u.spec(), t, p, mode), nontrivial=nontriv,
                 sample=lambda: {'table': u.describe(), 'target': rm.show(t), 'pattern': rm.show(p), 'mode': mode,
                                 'constructed_as': kind, 'result': {k: rm.show(v) for k, v in mm.items()}})
        col.feature('pairs_' + kind)
        col.feature('result_nonempty' if mm else 'result_empty')
        if kind == 'unifiable' and mode == 'same' and not mm:
            col.feature('unifiable_by_construction_but_empty(not judged: the property is one-directional)')
    if not mm:
        return viols
    if not ok_keys:
        viols.append(('C10/variable-bound-twice', {}))
    sp = subst_syn(p, mm)
    cands = [t] if mode == 'same' else [t] + [x for x in R.all_supers(t) if not rm.has_kind(x, ('cap',))]
    why = None
    for c in cands:
        why = mismatch(R, sp, c, mm, pvars)
        if why is None:
            break
    if why is not None:
        viols.append(('C10/not-a-unifier/%s/%s' % (mode, why[0]),
                      {'target': rm.show(t), 'pattern': rm.show(p), 'assignment': {k: rm.show(v) for k, v in mm.items()},
                       'pattern_after_assignment': rm.show(sp), 'detail': why[1]}))
    for name, tv in mm.items():
        v = pvars.get(name)
        if v is None or v[2] is None:
            continue
        if has_nested_proj(tv) or has_nested_proj(v[2]) or any(has_nested_proj(x) for x in mm.values()):
            # nested projections: RM (and its variance-composing substitution) is not defined on them - the bound of such
            # a case is not judged (the substitute-back comparison above, which is syntactic, still is)
            col.feature('bound_not_judged_nested_projection')
            continue
        b = rm.subst(v[2], mm)
        bb = strip_open(b)
        comp = tv[2] if rm.is_proj(tv) and tv[0] == 'p' else tv
        if tv == rm.STAR or rm.has_kind(bb, ('v',)):
            continue
        if not R.sub(comp, bb):
            viols.append(('C10/assigned-type-violates-bound/%s' % mode,
                          {'variable': name, 'assigned': rm.show(tv), 'bound': rm.show(b), 'target': rm.show(t),
                           'pattern': rm.show(p)}))
    return viols


def strip_open(b):
    return b


def has_nested_proj(t):
    """a projection whose bound is a projection occurs in t (the reference relation RM is not defined on these)."""
    if t is None or t[0] in ('b', 'c', 'star', 'bot', 'k', 'unk'):
        return False
    if t[0] == 'p':
        return rm.is_proj(t[2]) or has_nested_proj(t[2])
    if t[0] == 'v':
        return has_nested_proj(t[2])
    if t[0] == 'i':
        return any(has_nested_proj(a) for a in t[2])
    return False


def mismatch(R, sp, t, mm, pvars):
    """None if sp equals t up to open variables whose bound the component satisfies."""
    if sp == t:
        return None
    if sp[0] == 'v' and sp[1] not in mm:
        b = sp[2]
        if b is None:
            return None
        if has_nested_proj(t) or has_nested_proj(b) or any(has_nested_proj(x) for x in mm.values()):
            return None
        b = rm.subst(b, mm)
        comp = t[2] if rm.is_proj(t) and t[0] == 'p' else t
        if rm.has_kind(b, ('v',)):
            return None
        if R.sub(comp, b):
            return None
        return ('open-variable-bound', 'component %s does not satisfy bound %s of open variable %s' % (rm.show(t), rm.show(b), sp[1]))
    if sp[0] == 'p' and t[0] == 'p' and sp[1] == t[1]:
        return mismatch(R, sp[2], t[2], mm, pvars)
    if sp[0] == 'i' and t[0] == 'i' and sp[1] == t[1] and len(sp[2]) == len(t[2]):
        for a, b in zip(sp[2], t[2]):
            w = mismatch(R, a, b, mm, pvars)
            if w is not None:
                return w
        return None
    return ('differs', '%s vs %s' % (rm.show(sp), rm.show(t)))


def make_one(col, found):
    def one(case):
        u, t, p, mode, kind = case
        for sig, d in judge(u, t, p, mode, kind, col):
            col.violation(sig, dict(d, table=u.describe()), {'universe': u.spec(), 'T': t, 'P': p, 'mode': mode, 'kind': kind},
                          size=len(str(t)) + len(str(p)) + 20 * len(u.order))
            found[sig] = 1
    return one


def fuzz_entry(spec, col):
    """coverage-guided leg (vlib/fuzz.py): same strategy, same judge."""
    boot.init_types_only()
    return cases(spec['lang']), make_one(col, {})


def run_shard(spec, col):
    boot.init_types_only()
    lang = spec['lang']
    strategy = cases(lang)
    found = {}
    one = make_one(col, found)
    n = 700 if col.tier == 'quick' else 25000
    hyp.explore(strategy, one, n, col.shard_seed())
    fuzz.campaign('C10', spec, col, runs=400 if col.tier == 'quick' else 20000)
    for sig in sorted(found)[:3]:
        best = {}

        def failing(case, sig=sig):
            u, t, p, mode, kind = case
            v = [x for x in judge(u, t, p, mode, kind, col, record=False) if x[0] == sig]
            if v:
                sz = len(str(t)) + len(str(p)) + 20 * len(u.order)
                if 'sz' not in best or sz <= best['sz']:
                    best.update(sz=sz, case=case, d=v[0][1])
            return bool(v)
        hyp.minimize(strategy, failing, col.shard_seed(), max_examples=n + 200)
        if 'case' in best:
            u, t, p, mode, kind = best['case']
            col.violation(sig, dict(best['d'], table=u.describe()),
                          {'universe': u.spec(), 'T': t, 'P': p, 'mode': mode, 'kind': kind}, size=best['sz'] - 1)


def replay(case, col):
    boot.init_types_only()
    u = tg.universe_from_spec(case['universe'])
    t, p = tg.tuplify(case['T']), tg.tuplify(case['P'])
    for sig, d in judge(u, t, p, case['mode'], case.get('kind', 'replay'), col):
        col.violation(sig, dict(d, table=u.describe()), case)
