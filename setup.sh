#!/bin/sh
# Offline dependency check for the verification machinery.  Nothing is fetched.
set -e
cd "$(dirname "$0")"
PY=/venv/bin/python
if ! $PY -c "import hypothesis" 2>/dev/null; then
    /venv/bin/pip install --no-index --find-links /opt/veriftools/wheels --target "$(pwd)/.deps" hypothesis >/dev/null
fi
if ! PYTHONPATH="$(pwd)/.deps" $PY -c "import atheris" 2>/dev/null; then
    /venv/bin/pip install --no-index --find-links /opt/veriftools/wheels --target "$(pwd)/.deps" atheris >/dev/null 2>&1 || echo "setup: atheris not installable (thorough atheris legs are skipped)"
fi
PYTHONPATH="$(pwd)/.deps" $PY -c "import hypothesis, sys; print('setup ok: hypothesis', hypothesis.__version__)"
mkdir -p evidence replays
