"""Before/after comparison of a program around a mutation (TypeErasure,
TypeOverwriting): declared-type *slots* are compared as terms, everything
else structurally."""
from vlib import rm, sd

SLOTS = {('VariableDeclaration', 'var_type'), ('VariableDeclaration', 'inferred_type'),
         ('FunctionDeclaration', 'ret_type'), ('FunctionDeclaration', 'inferred_type'),
         ('New', 'class_type'), ('FunctionCall', 'type_args'), ('FunctionCall', '_can_infer_type_args')}


def term_of(x):
    if x is None:
        return None
    if isinstance(x, list):
        return tuple(term_of(y) for y in x)
    try:
        return rm.to_term(x, None)
    except TypeError:
        return ('?', repr(x)[:60])


def slot_value(x):
    """comparable value of a slot: the term plus the diamond flag of a constructor type."""
    if isinstance(x, bool):
        return x
    t = term_of(x)
    return (t, getattr(x, '_can_infer_type_args', None) if not isinstance(x, list) else None)


def skip(owner, attr):
    # analysis cache written by TypeDependencyAnalysis whether or not anything is mutated; no translator reads it
    if type(owner).__name__ == 'Context' and attr == '_namespaces':
        # reverse map keyed by value-equal objects: a deep copy may merge equal keys (harness artifact; see C13/C16)
        return True
    return type(owner).__name__ == 'FunctionCall' and attr == 'type_parameters'


def diff(before, after, limit=40):
    """-> (other_diffs, slot_diffs[dict])"""
    slot_out = []
    other = sd.pdiff(before, after, limit=limit, skip=skip, slots=SLOTS,
                     slot_cmp=lambda x, y: slot_value(x) == slot_value(y), slot_out=slot_out)
    slots = []
    for xa, xb, attr, va, vb, path in slot_out:
        slots.append({'owner': type(xa).__name__, 'owner_id': id(xb), 'owner_obj': xb, 'attr': attr,
                      'old': slot_value(va), 'new': slot_value(vb), 'old_obj': va, 'new_obj': vb,
                      'name': getattr(xb, 'name', None), 'path': path})
    return other, slots


def show_slot(s):
    def sh(v):
        if isinstance(v, tuple) and len(v) == 2 and (v[0] is None or isinstance(v[0], tuple)):
            t, flag = v
            if t is None:
                return 'None'
            if t and isinstance(t[0], tuple):
                return '[' + ', '.join(rm.show(x) for x in t) + ']'
            return rm.show(t) + ('' if flag in (None, False) else ' (diamond)')
        return str(v)
    return '%s(%s).%s: %s -> %s' % (s['owner'], s['name'], s['attr'], sh(s['old']), sh(s['new']))
