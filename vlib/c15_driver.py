"""C15 driver: one hephaestus session in one process.

    /venv/bin/python c15_driver.py <plan.json> <result.json>

`hephaestus.py` parses the command line and creates its module-global STATS
at import, so every session gets a fresh interpreter.  The scratch directory
is the directory of <plan.json>; everything the session writes lives below it
(--bugs, --log-file, TMPDIR of the batch directories, the registry used by the
stand-ins to talk across pool workers).

Replaced from the harness (module attributes only, the tree is untouched):

* `hephaestus.run_command`      scripted compiler: finds the source files the
  real command line names, attributes them to (pid, role) and renders
  real-format output for the planned verdicts (RENDER below);
* stub mode: `hephaestus.ProgramProcessor` and `src.utils.translate_program`
  (generator, transformations, translator) so that the *real* gen_program /
  process_cp_transformations / process_ncp_transformations / save_program lay
  out the files and build the oracle map; a planned tool failure is an
  exception raised where a real one would come from (generation, a
  transformation, the fault injection);
  real mode: nothing of that is replaced (--max-depth 2), only seeded;
* recording wrappers around gen_program, check_oracle, update_stats and a
  loop budget around stop_condition.
"""
import glob
import itertools
import json
import os
import re
import sys
import traceback

EXT = {'java': '.java', 'kotlin': '.kt', 'groovy': '.groovy', 'scala': '.scala'}
PREFIX = 'SHOULD NOT BE COMPILED'


# ------------------------------------------------------------------ tokens
def err_token(pid, role, k):
    return 'C15E_p%s%s_%d' % (pid, role[0], k)


def inj_token(pid):
    return 'C15INJ_p%sx' % pid


def tool_token(pid, where):
    return 'C15TOOL_p%sx_%s' % (pid, where)


def crash_token(pids):
    return 'C15CRASH_b%sx' % '_'.join(str(p) for p in pids)


# ------------------------------------------------------------------ renderers
# Every production mirrors what the respective compiler prints (javac 17:
# validated against the real javac in the check; kotlinc 1.x/2.x CLI message
# renderer; groovyc MultipleCompilationErrorsException.getMessage; scala 3
# (dotty) MessageRendering with -color never).  `files` is a list of
# (path, [error tokens], noise); crash is None or a token.
def render_java(files, crash, variant=0):
    out = []
    n = 0
    for path, toks, noise in files:
        for k, tok in enumerate(toks):
            n += 1
            out.append('%s:%d: error: incompatible types: %s cannot be converted to int\n'
                       '        int v%d = w%d;\n'
                       '                 ^\n' % (path, 3 + k, tok, k, k))
    if crash is not None:
        head = ''.join(out) if variant % 2 else ''
        return head + (
            'An exception has occurred in the compiler (17.0.19). Please file a bug against the Java compiler '
            'via the Java bug reporting page (https://bugreport.java.com) after checking the Bug Database '
            '(https://bugs.java.com) for duplicates. Include your program, the following diagnostic, and the '
            'parameters passed to the Java compiler in your report. Thank you.\n'
            'java.lang.AssertionError: %s\n'
            '\tat jdk.compiler/com.sun.tools.javac.util.Assert.error(Assert.java:162)\n'
            '\tat jdk.compiler/com.sun.tools.javac.comp.Attr.visitApply(Attr.java:2630)\n'
            '\tat jdk.compiler/com.sun.tools.javac.main.Main.compile(Main.java:317)\n' % crash)
    noisy = [p for p, toks, noise in files if noise]
    if len(noisy) == 1:
        out.append('Note: %s uses unchecked or unsafe operations.\n' % noisy[0])
        out.append('Note: Recompile with -Xlint:unchecked for details.\n')
    elif noisy:
        out.append('Note: Some input files use unchecked or unsafe operations.\n')
        out.append('Note: Recompile with -Xlint:unchecked for details.\n')
    if n:
        out.append('%d error%s\n' % (n, '' if n == 1 else 's'))
    return ''.join(out)


def render_kotlin(files, crash, variant=0):
    out = []
    if any(noise for _, _, noise in files):
        out.append('warning: some JAR files in the classpath have the Kotlin Runtime library bundled into them\n')
    for path, toks, noise in files:
        if noise:
            out.append("%s:2:9: warning: variable 'u' is never used\n"
                       '    val u = 1\n'
                       '        ^\n' % path)
        for k, tok in enumerate(toks):
            out.append('%s:%d:18: error: type mismatch: inferred type is %s but Int was expected\n'
                       '    val v%d: Int = w%d\n'
                       '                 ^\n' % (path, 3 + k, tok, k, k))
    if crash is not None:
        head = ''.join(out) if variant % 2 else ''
        first = files[0][0] if files else 'unknown'
        return head + (
            'exception: org.jetbrains.kotlin.backend.common.BackendException: Backend Internal error: '
            'Exception during IR lowering\n'
            'File being compiled: %s\n'
            'The root cause java.lang.RuntimeException was thrown at: '
            'org.jetbrains.kotlin.backend.jvm.codegen.FunctionCodegen.generate(FunctionCodegen.kt:50)\n'
            '\tat org.jetbrains.kotlin.backend.common.CodegenUtil.reportBackendException(CodegenUtil.kt:239)\n'
            'Caused by: java.lang.RuntimeException: %s\n'
            '\tat org.jetbrains.kotlin.backend.jvm.codegen.FunctionCodegen.generate(FunctionCodegen.kt:50)\n'
            % (first, crash))
    return ''.join(out)


def render_groovy(files, crash, variant=0):
    blocks = []
    for path, toks, noise in files:
        for k, tok in enumerate(toks):
            blocks.append('%s: %d: [Static type checking] - Cannot assign value of type %s to variable of type int\n'
                          ' @ line %d, column %d.\n'
                          '   int v%d = w%d\n'
                          '            ^\n' % (path, 3 + k, tok, 3 + k, 13, k, k))
    if crash is not None:
        first = files[0][0] if files else 'unknown'
        if variant % 2 == 0:
            return (">>> a serious error occurred: BUG! exception in phase 'instruction selection' in source unit "
                    "'%s' %s\n"
                    '>>> stacktrace:\n'
                    "BUG! exception in phase 'instruction selection' in source unit '%s' %s\n"
                    '\tat org.codehaus.groovy.control.CompilationUnit$ISourceUnitOperation.doPhaseOperation'
                    '(CompilationUnit.java:901)\n'
                    '\tat org.codehaus.groovy.control.CompilationUnit.compile(CompilationUnit.java:627)\n'
                    % (first, crash, first, crash))
        # the stack overflow form has no groovy frame on top and no diagnostics
        return ('Exception in thread "main" java.lang.StackOverflowError: %s\n'
                '\tat java.base/java.util.HashMap.hash(HashMap.java:338)\n'
                '\tat java.base/java.util.HashMap.getNode(HashMap.java:568)\n'
                '\tat java.base/java.util.HashMap.get(HashMap.java:556)\n' % crash)
    if not blocks:
        return ''
    return ('org.codehaus.groovy.control.MultipleCompilationErrorsException: startup failed:\n'
            + '\n'.join(blocks) + '\n%d error%s\n\n' % (len(blocks), '' if len(blocks) == 1 else 's'))


def render_scala(files, crash, variant=0):
    out = []
    n = 0
    for path, toks, noise in files:
        for k, tok in enumerate(toks):
            n += 1
            head = '-- [E007] Type Mismatch Error: %s:%d:15 ' % (path, 3 + k)
            out.append(head + '-' * max(3, 100 - len(head)) + '\n'
                       '%d |  val v%d: Int = w%d\n'
                       '  |               ^^\n'
                       '  |               Found:    (w%d : %s)\n'
                       '  |               Required: Int\n' % (3 + k, k, k, k, tok))
    if crash is not None:
        head = ''.join(out) if variant % 2 else ''
        first = files[0][0] if files else 'unknown'
        return head + (
            'exception occurred while typechecking %s\n'
            'exception occurred while compiling %s\n'
            'Exception in thread "main" java.lang.AssertionError: assertion failed: %s\n'
            '\tat scala.runtime.Scala3RunTime$.assertFailed(Scala3RunTime.scala:8)\n'
            '\tat dotty.tools.dotc.core.Types$TypeBounds.<init>(Types.scala:5178)\n'
            '\tat dotty.tools.dotc.typer.Typer.typedUnadapted(Typer.scala:3186)\n' % (first, first, crash))
    if n:
        out.append('%d error%s found\n' % (n, '' if n == 1 else 's'))
    return ''.join(out)


RENDER = {'java': render_java, 'kotlin': render_kotlin, 'groovy': render_groovy, 'scala': render_scala}
VERSION = {'java': 'javac 17.0.19\n', 'kotlin': 'info: kotlinc-jvm 1.9.24 (JRE 17.0.19+10)\n',
           'groovy': 'Groovy compiler version 5.0.0-alpha-1\nCopyright 2003-2023 The Apache Software Foundation.\n',
           'scala': 'Scala compiler version 3.3.1 -- Copyright 2002-2023, LAMP/EPFL\n'}

DEFAULT_PROG = {'fail': None, 'twin': False, 'cv': 'ok', 'iv': 'ok', 'crash': False, 'nerr': 1,
                'noise': False, 'skip': False}


def prog_plan(plan, pid):
    p = dict(DEFAULT_PROG)
    p.update(plan.get('programs', {}).get(str(pid)) or {})
    return p


# ------------------------------------------------------------------ session
class Session:
    def __init__(self, plan, scratch):
        self.plan = plan
        self.scratch = scratch
        self.lang = plan['language']
        self.mode = plan.get('mode', 'stub')
        self.bugs = os.path.join(scratch, 'bugs')
        self.reg = os.path.join(scratch, 'reg')
        self.tmproot = os.path.join(scratch, 't')
        self.name = plan.get('name', 'sess')
        self.testdir = os.path.join(self.bugs, self.name)
        self.updates = []
        self.events = []
        self.loop_calls = 0
        self.loop_budget_hit = False
        self.H = None

    # -- registry (shared by forked pool workers through the file system)
    def reg_dir(self, tmpbase):
        d = os.path.join(self.reg, tmpbase)
        os.makedirs(d, exist_ok=True)
        return d

    def reg_write(self, tmpbase, name, obj):
        d = self.reg_dir(tmpbase)
        tmp = os.path.join(d, '.%s.%d' % (name, os.getpid()))
        with open(tmp, 'w') as f:
            json.dump(obj, f, default=str)
        os.replace(tmp, os.path.join(d, name))

    def tmpbase_of(self, path):
        rel = os.path.relpath(path, self.tmproot)
        if rel.startswith('..'):
            return None
        return rel.split(os.sep)[0]

    # -- stand-in for the compiler
    def find_sources(self, arguments):
        ext = EXT[self.lang]
        files = []
        root = None
        for a in arguments:
            if not isinstance(a, str) or not a.startswith(os.sep):
                continue
            root = a
            if '*' in a:
                files.extend(glob.glob(a))        # what the shell would expand
            elif os.path.isdir(a):
                for dp, _, fns in os.walk(a):
                    files.extend(os.path.join(dp, fn) for fn in fns if fn.endswith(ext))
            elif a.endswith(ext) and os.path.exists(a):
                files.append(a)
        files = sorted(f for f in files if f.endswith(ext))
        return root, files

    def declared_package(self, path):
        """package the source file declares (stub files carry the translator's package in their marker line)."""
        try:
            with open(path, errors='replace') as f:
                head = f.read(4000)
        except OSError:
            return None
        m = re.search(r'^// c15 pid=\d+ role=\w+ package=(\S+)', head, re.M) or \
            re.search(r'^\s*package\s+([A-Za-z_][\w.]*)', head, re.M)
        return m.group(1) if m else None

    def attribute(self, path, batch_records):
        """(pid, role) of a source file: by the marker the stub translator
        wrote, else by the oracle map recorded when the program was generated."""
        try:
            with open(path) as f:
                head = f.read(200)
        except OSError:
            head = ''
        m = re.match(r'// c15 pid=(\d+) role=(correct|incorrect) ', head)
        if m:
            return int(m.group(1)), m.group(2)
        for pid, rec in batch_records.items():
            progs = rec.get('programs') or {}
            if path in progs:
                return pid, ('correct' if progs[path] else 'incorrect')
        return None, None

    def batch_records(self, tmpbase):
        d = os.path.join(self.reg, tmpbase)
        recs = {}
        if os.path.isdir(d):
            for fn in os.listdir(d):
                if fn.startswith('gen_'):
                    with open(os.path.join(d, fn)) as f:
                        r = json.load(f)
                    recs[r['pid']] = r
        return recs

    def run_command(self, arguments, get_stdout=True):
        H = self.H
        if list(arguments) == list(H.COMPILERS[self.lang].get_compiler_version()):
            return True, VERSION[self.lang]
        root, files = self.find_sources(arguments)
        tmpbase = self.tmpbase_of(root) if root else None
        recs = self.batch_records(tmpbase) if tmpbase else {}
        pids = sorted(recs)
        rfiles = []
        seen = []
        for path in files:
            pid, role = self.attribute(path, recs)
            toks = []
            noise = False
            if pid is not None:
                pp = prog_plan(self.plan, pid)
                verdict = pp['cv'] if role == 'correct' else pp['iv']
                if verdict == 'err':
                    toks = [err_token(pid, role, k) for k in range(max(1, int(pp['nerr'])))]
                noise = bool(pp['noise']) and role == 'correct'
            rfiles.append((path, toks, noise))
            seen.append({'path': path, 'pid': pid, 'role': role, 'errors': toks, 'package': self.declared_package(path),
                         'directory': os.path.basename(os.path.dirname(path))})
        crashers = [p for p in pids if prog_plan(self.plan, p)['crash']]
        ctok = crash_token(pids) if crashers else None
        variant = (pids[0] if pids else 0) + len(pids)
        if self.plan.get('reverse_output'):
            rfiles = rfiles[::-1]
        output = RENDER[self.lang](rfiles, ctok, variant)
        status = ctok is None and not any(t for _, t, _ in rfiles)
        if not files and ctok is None and root:
            # nothing to compile (every program of the batch failed before it was written)
            if self.lang == 'java':
                output = ('error: file not found: %s\nUsage: javac <options> <source files>\n'
                          'use --help for a list of possible options\n' % root)
                status = False
            elif self.lang == 'kotlin':
                output = 'error: source file or directory not found: %s\n' % root
                status = False
        if tmpbase:
            self.reg_write(tmpbase, 'compile.json', {
                'cmd': list(arguments), 'pids': pids, 'files': seen, 'crash': ctok,
                'output': output[:6000]})
        return status, output

    # -- stub generator pieces
    def install_stub(self):
        H = self.H
        sess = self
        Real = H.ProgramProcessor
        erasure = Real.CP_TRANSFORMATIONS['TypeErasure']

        class StubProcessor:
            CP_TRANSFORMATIONS = Real.CP_TRANSFORMATIONS
            NCP_TRANSFORMATIONS = Real.NCP_TRANSFORMATIONS

            def __init__(self, proc_id, args):
                self.proc_id = proc_id
                self.args = args
                self.p = prog_plan(sess.plan, proc_id)
                self.transformation_schedule = [erasure] * (args.transformations or 0)
                self.current_transformation = 0

            def get_program(self):
                if self.p['fail'] == 'early':
                    raise RuntimeError(tool_token(self.proc_id, 'generate'))
                return {'c15': self.proc_id, 'role': 'correct', 'steps': 0}, True

            def get_transformations(self):
                return self.transformation_schedule[:self.current_transformation]

            def can_transform(self):
                return self.current_transformation < len(self.transformation_schedule)

            def transform_program(self, program):
                self.current_transformation += 1
                if self.p['fail'] == 'mid':
                    raise KeyError(tool_token(self.proc_id, 'transform'))
                if self.p['skip'] and self.current_transformation == 1:
                    return None          # transformation not applicable
                program = dict(program, steps=program['steps'] + 1)
                return program, True

            def inject_fault(self, program):
                self.current_transformation += 1
                if self.p['fail'] in ('late', 'mid'):
                    # 'mid' with no transformation scheduled degenerates to 'late'
                    raise AssertionError(tool_token(self.proc_id, 'inject'))
                if not self.p['twin']:
                    return None
                program = dict(program, role='incorrect')
                return program, '%s expected but Foo found in node global/x' % inj_token(self.proc_id)

        def translate_program(translator, program):
            return '// c15 pid=%d role=%s package=%s steps=%d\nclass Main {}\n' % (
                program['c15'], program['role'], translator.package, program['steps'])

        H.ProgramProcessor = StubProcessor
        H.utils.translate_program = translate_program

    def install_real(self):
        H = self.H
        from src.ir import node as _node
        cnt = [itertools.count()]

        def _n_new(cls, *a, **k):
            o = object.__new__(cls)
            object.__setattr__(o, '_verif_id', next(cnt[0]))
            return o
        _node.Node.__new__ = _n_new
        _node.Node.__hash__ = lambda s: s._verif_id
        self._cnt = cnt

    # -- wrappers
    def install_wrappers(self):
        H = self.H
        sess = self
        orig_gen, orig_check, orig_update, orig_stop = (H.gen_program, H.check_oracle, H.update_stats,
                                                        H.stop_condition)
        seed = int(self.plan.get('seed', 0))

        def gen_program(pid, dirname, packages):
            if sess.mode == 'real':
                sess._cnt[0] = itertools.count()
                H.utils.random.r.seed(seed * 1000003 + pid)
            res = orig_gen(pid, dirname, packages)
            tmpbase = sess.tmpbase_of(dirname)
            rec = {'pid': pid, 'dirname': dirname, 'packages': list(packages), 'tmpbase': tmpbase,
                   'failed': None, 'programs': None, 'error': None, 'shape': 'ProgramRes'}
            try:
                rec['failed'] = bool(res.failed)
                progs = res.stats.get('programs')
                rec['programs'] = dict(progs) if progs is not None else None
                rec['error'] = res.stats.get('error')
                rec['transformations'] = res.stats.get('transformations')
            except Exception as e:     # not the documented shape
                rec['shape'] = 'unexpected: %r / %r' % (res, e)
            sess.reg_write(tmpbase or '_none', 'gen_%d.json' % pid, rec)
            return res

        def check_oracle(dirname, oracles):
            tmpbase = sess.tmpbase_of(dirname) or '_none'
            try:
                out = orig_check(dirname, oracles)
            except BaseException as e:
                sess.reg_write(tmpbase, 'exc.json', {
                    'type': type(e).__name__, 'msg': str(e), 'pids': [int(p) for p in oracles],
                    'tb': traceback.format_exc()[-2500:]})
                raise
            try:
                output = out[0]
                reported = {str(p): (s.get('error') if isinstance(s, dict) else repr(s))
                            for p, s in output.items()}
            except Exception as e:
                reported = {'_unexpected_shape': repr(out)[:300] + repr(e)}
            sess.reg_write(tmpbase, 'result.json', {'pids': [int(p) for p in oracles], 'reported': reported})
            return out

        def update_stats(res, batch, batch_time):
            snap = {'batch_arg': batch}
            try:
                snap['res_keys'] = sorted(str(k) for k in res[0])
            except Exception:
                snap['res_keys'] = None
            try:
                orig_update(res, batch, batch_time)
            except BaseException as e:
                snap['exception'] = '%s: %s' % (type(e).__name__, e)
                sess.updates.append(snap)
                raise
            snap['totals'] = dict(H.STATS['totals'])
            snap['fault_keys'] = sorted(str(k) for k in H.STATS['faults'])
            snap['disk'] = sess.read_disk()
            snap['gen_calls'] = sess.count_gen()
            sess.updates.append(snap)

        def stop_condition(iteration, time_passed):
            sess.loop_calls += 1
            if sess.loop_calls > sess.loop_limit:
                sess.loop_budget_hit = True
                raise KeyboardInterrupt('c15 loop budget')
            return orig_stop(iteration, time_passed)

        H.gen_program = gen_program
        H.check_oracle = check_oracle
        H.update_stats = update_stats
        H.stop_condition = stop_condition
        H.run_command = self.run_command

    def count_gen(self):
        n = 0
        if os.path.isdir(self.reg):
            for d in os.listdir(self.reg):
                n += sum(1 for fn in os.listdir(os.path.join(self.reg, d)) if fn.startswith('gen_'))
        return n

    def read_disk(self):
        out = {}
        for key, fn in (('faults', 'faults.json'), ('stats', 'stats.json')):
            p = os.path.join(self.testdir, fn)
            if not os.path.exists(p):
                out[key] = None
                continue
            try:
                with open(p) as f:
                    d = json.load(f)
            except Exception as e:
                out[key] = {'_unreadable': str(e)}
                continue
            if key == 'faults':
                out[key] = {str(k): (v.get('error') if isinstance(v, dict) else repr(v)) for k, v in d.items()}
            else:
                out[key] = {'totals': d.get('totals'), 'has_faults_key': 'faults' in d}
        return out

    # -- run
    def run(self):
        plan = self.plan
        os.makedirs(self.reg, exist_ok=True)
        os.makedirs(self.tmproot, exist_ok=True)
        import tempfile
        tempfile.tempdir = self.tmproot
        os.environ['TMPDIR'] = self.tmproot
        os.chdir(self.scratch)
        # stdout/stderr of the tool (and of forked workers) go to a file
        logp = os.path.join(self.scratch, 'stdout.txt')
        fd = os.open(logp, os.O_WRONLY | os.O_CREAT | os.O_TRUNC)
        os.dup2(fd, 1)
        os.dup2(fd, 2)
        sys.stdout = os.fdopen(1, 'w', encoding='utf-8', errors='replace', closefd=False)
        sys.stderr = sys.stdout
        sys.argv = (['hephaestus.py'] + [str(a) for a in plan['argv']]
                    + ['--language', self.lang, '--bugs', self.bugs, '--name', self.name,
                       '--log-file', os.path.join(self.scratch, 'logs')])
        repo = os.environ.get('VERIF_REPO', '/repo')
        if repo in sys.path:
            sys.path.remove(repo)
        sys.path.insert(0, repo)
        import random as pyrandom
        pyrandom.seed(0)
        result = {'status': None, 'exception': None}
        try:
            import hephaestus as H
        except BaseException as e:
            result['status'] = 'import-failed'
            result['exception'] = {'type': type(e).__name__, 'msg': str(e), 'tb': traceback.format_exc()[-3000:]}
            return result
        self.H = H
        H.utils.random.r.seed(int(plan.get('seed', 0)))
        iters = H.cli_args.iterations or 0
        self.loop_limit = iters + int(H.cli_args.batch or 1) + 25
        if self.mode == 'stub':
            self.install_stub()
        else:
            self.install_real()
        self.install_wrappers()
        result['cli'] = {'iterations': H.cli_args.iterations, 'batch': H.cli_args.batch,
                         'workers': H.cli_args.workers, 'transformations': H.cli_args.transformations,
                         'only_cp': H.cli_args.only_correctness_preserving_transformations,
                         'test_directory': H.cli_args.test_directory, 'language': H.cli_args.language}
        try:
            H.main()
            result['status'] = 'completed'
        except BaseException as e:
            result['status'] = 'exception'
            result['exception'] = {'type': type(e).__name__, 'msg': str(e), 'tb': traceback.format_exc()[-3000:]}
        sys.stdout.flush()
        result['loop_budget_hit'] = self.loop_budget_hit
        result['loop_calls'] = self.loop_calls
        result['updates'] = self.updates
        result['final'] = self.final_state()
        result['registry'] = self.read_registry()
        try:
            with open(logp, encoding='utf-8', errors='replace') as f:
                txt = f.read()
            result['stdout_tail'] = txt[-1500:]
            result['internal_error_lines'] = txt.count('Internal error while checking the oracle')
        except OSError:
            result['stdout_tail'] = ''
        return result

    def final_state(self):
        H = self.H
        fin = {'totals': dict(H.STATS['totals']),
               'faults': {str(k): (v.get('error') if isinstance(v, dict) else repr(v))
                          for k, v in H.STATS['faults'].items()},
               'disk': self.read_disk()}
        tree = []
        if os.path.isdir(self.testdir):
            for dp, dns, fns in os.walk(self.testdir):
                rel = os.path.relpath(dp, self.testdir)
                for fn in fns:
                    tree.append(os.path.normpath(os.path.join(rel, fn)))
                for dn in dns:
                    tree.append(os.path.normpath(os.path.join(rel, dn)) + '/')
        fin['tree'] = sorted(tree)
        fin['testdir_exists'] = os.path.isdir(self.testdir)
        # leftovers in the batch area, attributed to programs
        left = []
        for dp, dns, fns in os.walk(self.tmproot):
            for fn in fns:
                p = os.path.join(dp, fn)
                tmpbase = self.tmpbase_of(p)
                pid, role = self.attribute(p[:-4] if p.endswith('.bin') else p, self.batch_records(tmpbase))
                left.append({'path': os.path.relpath(p, self.tmproot), 'tmpbase': tmpbase, 'pid': pid, 'role': role})
        fin['leftover_batch_files'] = left
        fin['leftover_batch_dirs'] = sorted(os.listdir(self.tmproot))
        return fin

    def read_registry(self):
        out = {}
        for d in sorted(os.listdir(self.reg)):
            ent = {'gen': {}, 'compile': None, 'result': None, 'exc': None}
            for fn in os.listdir(os.path.join(self.reg, d)):
                if fn.startswith('.'):
                    continue
                with open(os.path.join(self.reg, d, fn)) as f:
                    obj = json.load(f)
                if fn.startswith('gen_'):
                    ent['gen'][str(obj['pid'])] = obj
                else:
                    ent[fn[:-5]] = obj
            out[d] = ent
        return out


def main():
    planf, resf = sys.argv[1], sys.argv[2]
    with open(planf) as f:
        plan = json.load(f)
    scratch = os.path.dirname(os.path.abspath(planf))
    sess = Session(plan, scratch)
    try:
        res = sess.run()
    except BaseException as e:   # harness problem inside the driver
        res = {'status': 'driver-error', 'exception': {'type': type(e).__name__, 'msg': str(e),
                                                      'tb': traceback.format_exc()[-3000:]}}
    tmp = resf + '.tmp'
    with open(tmp, 'w') as f:
        json.dump(res, f, default=str)
    os.replace(tmp, resf)
    try:
        sys.stdout.flush()
    except Exception:
        pass
    os._exit(0)


if __name__ == '__main__':
    main()
