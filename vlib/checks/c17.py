"""C17 — generation switches are honoured.

Every object reachable from a generated program (declared and inferred types,
type arguments, bounds, supertypes, signatures, embedded constructors, the
Context) is inspected under each of the 16 switch combinations and 4 languages.
A stray object is traced to the repository frames that created it by
re-generating the same case with constructor tracing on (deterministic)."""
import hashlib

from hypothesis import strategies as st

from vlib import boot, hyp, pg, walk

LEVEL = 'exploration'
RULE = ('case = generated program under (language, switch combination, seed or Hypothesis-owned tape, limits); all 16 '
        'switch combinations are cycled per language; every reachable type object and declaration is inspected; non-trivial = '
        'at least one switch is on AND the program has >= 1 generic class instantiation; distinct = distinct program text; '
        'per-switch feature counts show that the feature does occur when the switch is off')
ASSUMPTIONS = [
    'type parameters of builtin constructors (Array, FunctionN, specialised arrays) are scaffolding, not declarations of the program',
    'a use-site projection is any WildCardType object reachable from the program (type arguments, bounds, supertypes, signatures)',
]
MIN_NONTRIVIAL = {'quick': 120, 'thorough': 3000}
NSHARDS = 16
HARD_TIMEOUT = {'quick': 1500, 'thorough': 4 * 3600}
VARIANT_LANGS = ('kotlin', 'scala')


def shards(tier):
    return [{'k': k, 'lang': boot.LANGS[k % 4], 'part': k // 4} for k in range(NSHARDS)]


def inspect(program, lang, switches):
    """Returns (violations [(rule, path, descr, obj)], stats)."""
    from src.ir import ast, types as tp
    sw = set(switches)
    viols = []
    stats = {'wildcards': 0, 'contravariant_wildcards': 0, 'bounded_params': 0, 'generic_functions': 0,
             'variant_class_params': 0, 'generic_instantiations': 0}
    builtin_params = set()

    def prune(o, k):
        # type parameters of builtin constructors are scaffolding
        return (k == 'type_parameters' and isinstance(o, tp.TypeConstructor)
                and type(o).__name__ != 'TypeConstructor')
    for o, path in walk.reachable(program, prune=prune):
        if isinstance(o, tp.WildCardType):
            stats['wildcards'] += 1
            if o.variance.is_contravariant():
                stats['contravariant_wildcards'] += 1
            if 'usv_off' in sw:
                viols.append(('usv-off/wildcard', path, str(o), o))
            elif 'contra_off' in sw and o.variance.is_contravariant():
                viols.append(('contra-off/contravariant-wildcard', path, str(o), o))
        elif isinstance(o, tp.TypeParameter):
            if o.bound is not None:
                stats['bounded_params'] += 1
                if 'bounded_off' in sw:
                    viols.append(('bounded-off/bound', path, str(o), o))
        elif isinstance(o, tp.ParameterizedType):
            stats['generic_instantiations'] += 1
        elif isinstance(o, ast.FunctionDeclaration):
            if o.type_parameters:
                stats['generic_functions'] += 1
                if 'pfunc_off' in sw:
                    viols.append(('pfunc-off/type-parameters', path, o.name, o))
                for p in o.type_parameters:
                    if not p.variance.is_invariant():
                        viols.append(('function-type-parameter-variant', path, '%s %s' % (o.name, p), p))
        elif isinstance(o, ast.ClassDeclaration):
            for p in o.type_parameters:
                if not p.variance.is_invariant():
                    stats['variant_class_params'] += 1
                    if lang not in VARIANT_LANGS:
                        viols.append(('decl-variance-in-%s' % lang, path, '%s %s' % (o.name, p), p))
    return viols, stats


_trace = {'on': False}


def install_tracing():
    """Stamp WildCardType / TypeParameter objects with the repository frames
    that constructed them (only used when re-generating a failing case)."""
    if 'done' in _trace:
        return
    _trace['done'] = True
    import sys
    from src.ir import types as tp
    for cls in (tp.WildCardType, tp.TypeParameter):
        orig = cls.__init__

        def init(self, *a, __orig=orig, **k):
            __orig(self, *a, **k)
            if _trace['on']:
                fr = sys._getframe(1)
                site = []
                while fr is not None and len(site) < 4:
                    fn = fr.f_code.co_filename
                    if '/src/' in fn:
                        site.append('%s:%s' % (fn.rsplit('/', 1)[1], fr.f_code.co_name))
                    fr = fr.f_back
                try:
                    object.__setattr__(self, '_verif_site', '<-'.join(site))
                except Exception:
                    pass
        cls.__init__ = init


def site_of(key, rule, descr):
    """Re-generate with tracing and return the creation site of the first
    stray object of this rule."""
    install_tracing()
    _trace['on'] = True
    try:
        case = pg.regen(key)
    finally:
        _trace['on'] = False
    if case.program is None:
        return 'unknown'
    viols, _ = inspect(case.program, key['lang'], key['switches'])
    for r, path, d, o in viols:
        if r == rule:
            return getattr(o, '_verif_site', 'copied-object') or 'unknown'
    return 'not-reproduced'


def judge(case, col):
    if case.error or case.oversize or case.program is None:
        col.feature('discarded_error_or_oversize')
        col.case(key=repr(case.key())[:100], nontrivial=False)
        return
    viols, stats = inspect(case.program, case.lang, case.switches)
    text = None
    try:
        text = pg.translate(case.program, case.lang)
    except Exception:
        col.feature('translate_failed')
    key = hashlib.sha1((text or repr(case.key())).encode()).hexdigest()[:16]
    nontriv = bool(case.switches) and stats['generic_instantiations'] > 0
    col.case(key=key, nontrivial=nontriv,
             sample=lambda: {'lang': case.lang, 'switches': case.switches, 'seed': case.seed, 'mode': case.mode,
                             'limits': case.limits, 'stats': stats, 'program_head': (text or '')[:300]})
    cell = '%s|%s' % (case.lang, ','.join(case.switches) or 'none')
    col.feature('programs[' + cell + ']')
    sw = set(case.switches)
    # does the feature occur when the switch is off?
    for name, stat in (('usv_off', 'wildcards'), ('contra_off', 'contravariant_wildcards'),
                       ('bounded_off', 'bounded_params'), ('pfunc_off', 'generic_functions')):
        if name not in sw and not (name == 'contra_off' and 'usv_off' in sw):
            col.feature('programs_with_%s_when_allowed' % stat, 1 if stats[stat] else 0)
            col.feature('programs_where_%s_allowed' % stat)
    seen = set()
    for rule, path, descr, obj in viols:
        if rule in seen:
            continue
        seen.add(rule)
        site = site_of(case.key(), rule, descr)
        col.violation('C17/%s/created-at=%s' % (rule, site),
                      {'rule': rule, 'path': path[-200:], 'object': descr, 'lang': case.lang,
                       'switches': case.switches, 'count_in_program': sum(1 for v in viols if v[0] == rule)},
                      case.key(), size=(len(case.tape) if case.tape else 100000 + len(text or '')))


FLAGS = {'usv_off': '--disable-use-site-variance', 'contra_off': '--disable-contravariance-use-site',
         'bounded_off': '--disable-bounded-type-parameters', 'pfunc_off': '--disable-parameterized-functions'}


def args_leg(spec, col):
    """The command line is the only way a user sets the switches: for this shard's switch combination (all 16 are
    covered by the 16 shards, in two orders of the flags) a fresh interpreter parses the flags through src/args.py and the
    resulting configuration must be the one the generation legs apply (boot.apply_config)."""
    import json
    import subprocess
    import sys
    combo = boot.switch_sets()[spec['k'] % 16]
    code = ('import sys, json\n'
            'sys.path.insert(0, %r)\n'
            'from src.args import args\n'
            'from src.generators.config import cfg\n'
            'print("CFG=" + json.dumps({"usv_off": bool(cfg.dis.use_site_variance), "contra_off": bool(cfg.dis.use_site_contravariance),'
            ' "bounded_off": cfg.prob.bounded_type_parameters == 0, "pfunc_off": cfg.prob.parameterized_functions == 0}))\n') % boot.repo()
    for order in (list(combo), list(reversed(combo))):
        argv = ['hephaestus.py', '--language', spec['lang'], '-i', '1', '--bugs', '/tmp/verif_c17_args', '--name', 'x'] + \
               [FLAGS[s] for s in order]
        r = subprocess.run([sys.executable, '-c', 'import sys; sys.argv = %r\n%s' % (argv, code)], stdout=subprocess.PIPE,
                           stderr=subprocess.PIPE, text=True, timeout=300)
        line = [l for l in r.stdout.splitlines() if l.startswith('CFG=')]
        if not line:
            raise RuntimeError('args leg: no configuration printed: ' + r.stderr[-400:])
        got = json.loads(line[0][4:])
        want = {s: (s in combo) for s in boot.SWITCHES}
        col.case(key='args|%s|%s' % (spec['lang'], ','.join(order)), nontrivial=bool(combo),
                 sample=lambda: {'leg': 'command line', 'flags': [FLAGS[s] for s in order], 'configuration': got})
        col.feature('command_lines_parsed')
        for s in boot.SWITCHES:
            if got[s] != want[s]:
                col.violation('C17/command-line/%s-%s' % (s, 'ignored' if want[s] else 'set-without-flag'),
                              {'flags': [FLAGS[x] for x in order], 'configuration': got, 'lang': spec['lang']},
                              {'args_leg': True, 'k': spec['k'], 'lang': spec['lang']}, size=len(order))


def run_shard(spec, col):
    lang = spec['lang']
    args_leg(spec, col)
    boot.init(lang)
    quick = col.tier == 'quick'
    combos = boot.switch_sets()
    # each of the 4 shards of a language takes 4 of the 16 combinations
    mine = combos[spec['part'] * 4: spec['part'] * 4 + 4]
    per_combo_seed = 7 if quick else 60
    per_combo_tape = 12 if quick else 250
    for sw in mine:
        def seed_case(x, sw=sw):
            seed, limits = x
            judge(pg.gen_case(lang, 'seed', seed, sw, limits), col)
        hyp.explore(st.tuples(st.integers(0, 2 ** 31 - 1), pg.config_strategy().map(lambda c: c[1])),
                    seed_case, per_combo_seed, col.shard_seed('s' + ','.join(sw)))

        def tape_case(x, sw=sw):
            data, limits = x
            judge(pg.gen_case(lang, 'tape', 0, sw, limits, data=data, budget=4000), col)
        hyp.explore(st.tuples(st.data(), pg.config_strategy(small=True).map(lambda c: c[1])),
                    tape_case, per_combo_tape, col.shard_seed('t' + ','.join(sw)))


def replay(key, col):
    if key.get('args_leg'):
        args_leg({'k': key['k'], 'lang': key['lang']}, col)
        return
    boot.init(key['lang'])
    judge(pg.regen(key), col)
