"""C13 — saved programs replay faithfully.

For every save point of a pipeline (generated program, after each erasure,
after overwriting) the program is written with utils.dump_program to a real
file and read back with utils.load_program.  Oracle (round trip):
 (1) each of the four translators gives the same text for the loaded program
     as for the original (or the same exception type for an unsupported
     language combination);
 (2) with the RNG re-seeded identically, TypeErasure followed by
     TypeOverwriting give the same texts, is_transformed and error_injected on
     the loaded program as on a deep copy of the original;
 (3) dumping again is stable: load(dump(q)) is structurally equal to q;
 (4) the reverse lookup context.get_namespace(decl) answers for the
     declarations of the loaded program as for the original.
"""
import hashlib
import os
import shutil
import tempfile

from hypothesis import strategies as st

from vlib import boot, hyp, pg, sd

LEVEL = 'exploration'
RULE = ('case = one save point (stage G, E1, E2 or O of a generated program; language, seed, switches, limits drawn by '
        'Hypothesis) dumped to a real file and loaded back; non-trivial = stage E or O (the program carries erased / '
        'overwritten annotations) or a generic class with a bounded parameter; distinct = distinct (program text, stage)')
ASSUMPTIONS = [
    'pickle byte equality and object sharing are reported, not judged (neither is a contract of the dump)',
    'mutations are compared under identical RNG seeds; node hashing is made deterministic by the harness',
]
MIN_NONTRIVIAL = {'quick': 100, 'thorough': 2500}
NSHARDS = 16
HARD_TIMEOUT = {'quick': 1500, 'thorough': 4 * 3600}


def shards(tier):
    return [{'k': k, 'lang': boot.LANGS[k % 4]} for k in range(NSHARDS)]


def all_texts(program):
    out = {}
    for lang in boot.LANGS:
        try:
            out[lang] = pg.translate(program, lang)
        except RecursionError:
            out[lang] = 'EXC:RecursionError'
        except Exception as e:
            out[lang] = 'EXC:' + type(e).__name__
    return out


def mutate_twice(program, lang, seed):
    """erasure then overwriting under a fixed RNG; returns observable results."""
    import random
    utils = boot._state['utils']
    utils.random.r = random.Random(seed)     # a plain PRNG (tape-mode objects ignore seed())
    res = {}
    try:
        te = pg.erase(program, lang)
        res['te'] = te.is_transformed
        res['text_E'] = pg.translate(program, lang)
        utils.random.r = random.Random(seed + 1)
        to = pg.overwrite(program, lang)
        res['to'] = to.is_transformed
        res['err'] = to.error_injected
        res['text_O'] = pg.translate(program, lang)
    except RecursionError:
        res['exc'] = 'RecursionError'
    except Exception as e:
        res['exc'] = type(e).__name__ + ':' + str(e)[:80]
    return res


def namespaces_of(program):
    """reverse lookup of every declaration reachable in the context maps."""
    from src.ir import ast
    out = []
    ctx = program.context
    try:
        allns = list(ctx._context.keys())
    except Exception:
        return out
    for ns in allns:
        try:
            decls = ctx.get_declarations(ns, only_current=True)
        except Exception:
            continue
        for name, d in decls.items():
            try:
                out.append((ns, name, type(d).__name__, ctx.get_namespace(d)))
            except Exception as e:
                out.append((ns, name, type(d).__name__, 'EXC:' + type(e).__name__))
    return out


def judge_savepoint(program, lang, stage, key, col, tmpdir, textG, path=None, live_texts=None, live_ns=None):
    """`program` is the twin (deep copy) of the program as it was when it was dumped to `path` in phase 1."""
    from src import utils
    viols = []
    try:
        if path is None:
            path = os.path.join(tmpdir, 'p_%s.bin' % stage)
            utils.dump_program(path, program)
        q = utils.load_program(path)
    except RecursionError:
        col.feature('dump_recursion_error')
        viols.append(('C13/dump-or-load-raises/RecursionError', {'stage': stage}))
        return viols
    except Exception as e:
        viols.append(('C13/dump-or-load-raises/' + type(e).__name__, {'stage': stage, 'msg': str(e)[:200]}))
        return viols
    # (1) translations
    tp_, tq = (live_texts if live_texts is not None else all_texts(program)), all_texts(q)
    for l in boot.LANGS:
        if tp_[l] != tq[l]:
            own = 'own-language' if l == lang else 'cross-language'
            viols.append(('C13/text-differs-after-load/%s/%s' % (l, own),
                          {'stage': stage, 'translator': l, 'diff': _first_diff(tp_[l], tq[l])}))
    # (1b) the stored test case is (source text written by the driver *before* the dump, .bin): --replay must
    # reproduce that source (a translator that rewrites the program on its first translation breaks this although
    # the live object and the loaded one agree with each other)
    if stage == 'G' and textG is not None and tq.get(lang) != textG:
        viols.append(('C13/stored-source-differs-from-replayed-translation/%s' % lang,
                      {'stage': stage, 'diff': _first_diff(textG, tq.get(lang) or '')}))
    # (4) reverse lookup
    np_, nq = (live_ns if live_ns is not None else namespaces_of(program)), namespaces_of(q)
    if np_ != nq:
        bad = [(a, b) for a, b in zip(np_, nq) if a != b][:3]
        viols.append(('C13/namespace-lookup-differs-after-load',
                      {'stage': stage, 'first': [list(map(str, x)) for x in bad], 'len': [len(np_), len(nq)]}))
    # (3) stability of a second dump
    try:
        path2 = os.path.join(tmpdir, 'p_%s_2.bin' % stage)
        utils.dump_program(path2, q)
        q2 = utils.load_program(path2)
        d = sd.pdiff(q, q2, limit=3)
        if d:
            viols.append(('C13/second-dump-not-stable/%s' % _attr_of(d[0][0]),
                          {'stage': stage, 'diff': [list(map(str, x)) for x in d]}))
        with open(path, 'rb') as f1, open(path2, 'rb') as f2:
            if f1.read() != f2.read():
                col.feature('pickle_bytes_differ_on_second_dump(reported only)')
    except Exception as e:
        viols.append(('C13/second-dump-raises/' + type(e).__name__, {'stage': stage}))
    # structural equality of the loaded program with the original (unfolded)
    d = sd.pdiff(program, q, limit=3)
    if d:
        # reported, not judged: the property speaks about observable behaviour (1)-(4); e.g. the
        # reverse map Context._namespaces can lose value-equal duplicate keys on load
        col.feature('loaded_program_structurally_differs(reported only):' + _attr_of(d[0][0]))
    # (2) mutations agree
    import copy
    twin = copy.deepcopy(program)
    seed = key.get('seed', 0) or 7
    boot._state['utils'].random.reset_word_pool()
    rp = mutate_twice(twin, lang, seed)
    boot._state['utils'].random.reset_word_pool()
    rq = mutate_twice(q, lang, seed)
    if rp != rq:
        k = next((x for x in sorted(set(rp) | set(rq)) if rp.get(x) != rq.get(x)), '?')
        viols.append(('C13/mutation-differs-after-load/%s' % k,
                      {'stage': stage, 'original': str(rp.get(k))[:200], 'loaded': str(rq.get(k))[:200]}))
    col.feature('savepoints_' + stage[0])
    if rp.get('te'):
        col.feature('replayed_erasure_transformed')
    if rp.get('to'):
        col.feature('replayed_overwrite_injected')
    return viols


def _first_diff(a, b):
    n = min(len(a), len(b))
    i = next((j for j in range(n) if a[j] != b[j]), n)
    return {'at': i, 'original': a[max(0, i - 40):i + 60], 'loaded': b[max(0, i - 40):i + 60]}


def _attr_of(path):
    import re
    parts = re.findall(r'\.([A-Za-z_]+)', path)
    return parts[-1] if parts else 'root'


class OtherProcess:
    """Other-process leg: some save points are kept on disk and read back by ONE fresh interpreter per shard whose
    PYTHONHASHSEED differs from this process' (as `--replay` in a later session does); the four translations of the
    loaded program must equal the texts of the live object at save time."""

    def __init__(self, lang, limit):
        self.lang, self.limit = lang, limit
        self.dir = tempfile.mkdtemp(prefix='verif_c13x_')
        self.entries = []

    def want(self):
        return len(self.entries) < self.limit

    def add(self, stage, path, live_texts, key, size):
        dst = os.path.join(self.dir, 'x%d_%s.bin' % (len(self.entries), stage))
        shutil.copyfile(path, dst)
        self.entries.append({'path': dst, 'stage': stage, 'texts': live_texts, 'key': key, 'size': size})

    def run(self, col):
        import json
        import subprocess
        import sys
        try:
            if not self.entries:
                return
            job = os.path.join(self.dir, 'job.json')
            out = os.path.join(self.dir, 'out.json')
            with open(job, 'w') as f:
                json.dump({'lang': self.lang, 'entries': [{'path': e['path']} for e in self.entries], 'out': out}, f)
            env = dict(os.environ, PYTHONHASHSEED=str(1000 + col.k))
            r = subprocess.run([sys.executable, '-m', 'vlib.c13_loader', job], env=env, stdout=subprocess.PIPE,
                               stderr=subprocess.STDOUT, text=True, timeout=3000,
                               cwd=os.path.dirname(os.path.dirname(os.path.dirname(os.path.abspath(__file__)))))
            if not os.path.exists(out):
                raise RuntimeError('C13 loader process failed: ' + r.stdout[-800:])
            with open(out) as f:
                got = json.load(f)
            for e, g in zip(self.entries, got):
                col.case(key=hashlib.sha1((e['texts'].get(self.lang, '') + e['stage'] + 'x').encode()).hexdigest()[:16],
                         nontrivial=e['stage'] != 'G',
                         sample=lambda e=e: {'leg': 'other process', 'lang': self.lang, 'stage': e['stage'],
                                             'loader_PYTHONHASHSEED': 1000 + col.k})
                col.feature('savepoints_read_in_another_process')
                if 'load' in g:
                    col.violation('C13/load-raises-in-another-process/' + g['load'][4:], {'stage': e['stage']},
                                  dict(e['key'], stage=e['stage'], other_process=True), size=e['size'])
                    continue
                for l in boot.LANGS:
                    if e['texts'][l] != g.get(l):
                        own = 'own-language' if l == self.lang else 'cross-language'
                        col.violation('C13/text-differs-after-load/%s/%s/other-process' % (l, own),
                                      {'stage': e['stage'], 'translator': l, 'diff': _first_diff(e['texts'][l], g.get(l) or '')},
                                      dict(e['key'], stage=e['stage'], other_process=True), size=e['size'])
        finally:
            shutil.rmtree(self.dir, ignore_errors=True)


def judge_case(case, col, xleg=None):
    if case.program is None:
        col.feature('discarded_error_or_oversize')
        return
    lang = case.lang
    tmpdir = tempfile.mkdtemp(prefix='verif_c13_')
    try:
        prog = case.program
        textG = pg.translate(prog, lang)
        feats = pg.features(prog)
        utils = boot._state['utils']
        from src import utils as repo_utils
        import copy
        import random
        # phase 1: exactly what the driver does - the SAME program object is dumped after every stage,
        # with nothing but the mutations in between (a deep copy remembers what was dumped)
        saves = []

        def save(stage):
            path = os.path.join(tmpdir, 'p_%s.bin' % stage)
            repo_utils.dump_program(path, prog)
            # observables of the LIVE object at save time (a copy would itself go through __getstate__/__setstate__)
            saves.append((stage, path, copy.deepcopy(prog), all_texts(prog), namespaces_of(prog)))
        save('G')
        utils.random.r = random.Random((case.seed or 1) * 3 + 1)
        te = pg.erase(prog, lang)
        if te.is_transformed:
            save('E1')
            te2 = pg.erase(prog, lang)
            if te2.is_transformed:
                save('E2')
        to = pg.overwrite(prog, lang)
        if to.is_transformed:
            save('O')
        # phase 2: load every dump and judge it against the program as it was at that save point
        for stage, path, twin, live_texts, live_ns in saves:
            if xleg is not None and xleg.want():
                xleg.add(stage, path, live_texts, case.key(), (len(case.tape) if case.tape else 100000 + len(textG)))
            viols = judge_savepoint(twin, lang, stage, case.key(), col, tmpdir, textG, path=path,
                                    live_texts=live_texts, live_ns=live_ns)
            k = hashlib.sha1((textG + stage).encode()).hexdigest()[:16]
            nontriv = stage != 'G' or feats.get('bounded_class_params', 0) > 0
            col.case(key=k, nontrivial=nontriv,
                     sample=lambda stage=stage: {'lang': lang, 'stage': stage, 'seed': case.seed, 'switches': case.switches,
                                                 'limits': case.limits, 'nodes': feats.get('nodes'),
                                                 'program_head': textG[:300]})
            for sig, detail in viols:
                col.violation(sig, detail, dict(case.key(), stage=stage),
                              size=(len(case.tape) if case.tape else 100000 + len(textG)))
    except pg.Oversize:
        col.feature('discarded_oversize')
    except Exception as e:
        # failures of the pipeline itself belong to C18
        col.feature('pipeline_exception(C18 territory):' + type(e).__name__)
    finally:
        shutil.rmtree(tmpdir, ignore_errors=True)


def run_shard(spec, col):
    lang = spec['lang']
    boot.init(lang)
    quick = col.tier == 'quick'

    xleg = OtherProcess(lang, 12 if quick else 120)

    def hand_case(data):
        # hand-shaped programs (vlib/handprog.py): nested functions, varargs of parameterized element type, generic calls
        case = pg.hand_case(lang, draw=data.draw)
        col.feature('programs_handmade')
        judge_case(case, col, xleg if len(xleg.entries) < xleg.limit // 3 else None)
    # (first: whatever these translations leave behind in the process is then part of every later save point, which
    # the other-process leg reads back in a clean interpreter)
    hyp.explore(st.data(), hand_case, 10 if quick else 300, col.shard_seed('hand'))

    def seed_case(x):
        seed, (sw, limits) = x
        judge_case(pg.gen_case(lang, 'seed', seed, sw, limits), col, xleg)
    lim = pg.config_strategy()
    hyp.explore(st.tuples(st.integers(1, 2 ** 31 - 1), lim), seed_case, 6 if quick else 150, col.shard_seed('seed'))

    def tape_case(x):
        data, (sw, limits) = x
        judge_case(pg.gen_case(lang, 'tape', 0, sw, limits, data=data, budget=4000), col, xleg)
    hyp.explore(st.tuples(st.data(), pg.config_strategy(small=True)), tape_case, 16 if quick else 400,
                col.shard_seed('tape'))

    xleg.run(col)


def replay(key, col):
    boot.init(key['lang'])
    xleg = OtherProcess(key['lang'], 8)
    judge_case(pg.regen({k: v for k, v in key.items() if k not in ('stage', 'other_process')}), col, xleg)
    xleg.run(col)
