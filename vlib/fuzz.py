"""Coverage-guided leg (atheris / libFuzzer) for checks whose cases come from a
Hypothesis strategy.

The same strategy and the same judging function as the random leg are driven
by libFuzzer through `test.hypothesis.fuzz_one_input`: the fuzzer mutates the
byte string Hypothesis decodes its draws from and keeps inputs that reach new
branches of the instrumented tree under test (src.ir.*), so the search is
guided towards code paths the purely random leg may not have reached.  The
oracle runs inside the target and *records* violations instead of raising
(libFuzzer would stop at the first crash and hide what lies behind it).

The campaign runs in a child process of the shard (atheris never returns
from Fuzz() and skips atexit): the child stops itself after `runs` valid
cases, writes its collector, and the shard merges it.  libFuzzer's -seed pins
a campaign only approximately; the reproducible unit is the structured case
stored with every violation (class table + types), replayed without atheris.
"""
import json
import os
import subprocess
import sys
import tempfile

ROOT = os.path.dirname(os.path.dirname(os.path.abspath(__file__)))


def available():
    try:
        import atheris  # noqa: F401
        return True
    except Exception:
        return False


def campaign(pid, spec, col, runs, salt='fuzz', timeout=3600):
    """Run one campaign for check `pid` in a child process and merge its results into col."""
    if not available():
        col.feature('atheris_unavailable(leg skipped)')
        return
    scratch = os.environ.get('VERIF_SCRATCH') or tempfile.gettempdir()
    d = tempfile.mkdtemp(prefix='fuzz_%s_' % pid, dir=scratch)
    out = os.path.join(d, 'result.json')
    job = {'pid': pid, 'spec': spec, 'runs': runs, 'seed': col.shard_seed(salt) % (2 ** 31 - 1) + 1,
           'tier': col.tier, 'vseed': col.seed, 'k': col.k, 'n': col.n, 'out': out, 'corpus': os.path.join(d, 'corpus')}
    os.makedirs(job['corpus'])
    jf = os.path.join(d, 'job.json')
    with open(jf, 'w') as f:
        json.dump(job, f)
    log = os.path.join(d, 'log.txt')
    try:
        with open(log, 'w') as lf:
            try:
                subprocess.run([sys.executable, '-m', 'vlib.fuzz_child', jf], cwd=ROOT, stdout=lf, stderr=subprocess.STDOUT,
                               timeout=timeout)
            except subprocess.TimeoutExpired:
                col.feature('atheris_campaign_timeout(inconclusive part)')
        if not os.path.exists(out):
            tail = open(log).read()[-600:] if os.path.exists(log) else ''
            raise RuntimeError('atheris child wrote no result: ' + tail)
        with open(out) as f:
            res = json.load(f)
        if res.get('status') != 'ok':
            raise RuntimeError('atheris child failed: ' + str(res.get('error'))[-1500:])
        col.evaluations += res['evaluations']
        col.nontrivial.update(res['nontrivial'])
        for s in res['samples']:
            if len(col.samples) < col.max_samples + 1:
                s = dict(s, leg='atheris') if isinstance(s, dict) else s
                col.samples.append(s)
        for k, v in res['features'].items():
            col.feature(k, v)
        for k, v in res['extra'].items():
            if isinstance(v, (int, float)):
                col.add_extra(k, v)
        for v in res['violations']:
            for _ in range(1):
                col.violation(v['signature'], v['detail'], v['case'], size=v['size'])
            col.violations[v['signature']]['count'] += v['count'] - 1
        col.add_extra('atheris_valid_cases', res.get('valid_cases', 0))
        col.add_extra('atheris_executions', res.get('executions', 0))
        cov = _final_cov(log)
        if cov:
            col.max_extra('atheris_edges_covered(max over shards)', cov)
    finally:
        import shutil
        shutil.rmtree(d, ignore_errors=True)


def _final_cov(log):
    import re
    best = 0
    try:
        for line in open(log, errors='replace'):
            m = re.search(r'cov: (\d+)', line)
            if m:
                best = max(best, int(m.group(1)))
    except OSError:
        pass
    return best
