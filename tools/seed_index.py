#!/venv/bin/python
"""Regenerates seeded/INDEX.md from the meta.json files."""
import glob, json, os
ROOT = os.path.dirname(os.path.dirname(os.path.abspath(__file__)))
rows = []
for d in sorted(glob.glob(os.path.join(ROOT, 'seeded', '*'))):
    mp = os.path.join(d, 'meta.json')
    if not os.path.exists(mp):
        continue
    m = json.load(open(mp))
    for chk, r in m.get('checks', {}).items():
        rows.append('| %s | %s | %s | %s | %s | %s |' % (os.path.basename(d), m.get('property'), (m.get('title') or '')[:140].replace('|', '/'),
                                                      (m.get('needs_to_manifest') or '')[:200].replace('|', '/').replace('\n', ' '),
                                                      chk + (': CAUGHT' if r['caught'] else ': MISSED'), ', '.join(r.get('signatures', [])[:2])))
open(os.path.join(ROOT, 'seeded', 'INDEX.md'), 'w').write(
    '# Independently seeded changes\n\n| name | property | change | needs to manifest | quick check | signatures |\n|---|---|---|---|---|---|\n' + '\n'.join(rows) + '\n')
print(len(rows), 'rows')
