"""Reference program checker (RC): an independent type checker and scope
resolver for the hephaestus IR, written from the IR's documented meaning
(ast.py, the translators) and the target languages' rules.  It never calls
get_type_hint, Context lookups (other than listing the top-level declarations,
the only root a Program has), is_subtype or is_assignable of the IR.

Rules  R1 initialisers/defaults  R2 call/constructor/super arguments, R2b array
elements  R3 function/lambda results  R4 conditional branches + condition
R5 assignments  R6 explicit type arguments within bounds  R7 class obligations
S1-S8 scope rules (C05).  Unknown constructs yield "no judgement" (counted).
"""
from vlib import rm

BOT, TOP, STAR = rm.BOT, rm.TOP, rm.STAR
UNK = ('unk',)


class WorkBudget(Exception):
    pass


class Env:
    __slots__ = ('parent', 'vars', 'funcs', 'tvars', 'kind', 'cls', 'func', 'names')

    def __init__(self, parent=None, kind='block', cls=None, func=None):
        self.parent = parent
        self.vars = {}
        self.funcs = {}
        self.tvars = {}
        self.names = set()
        self.kind = kind
        self.cls = cls if cls is not None else (parent.cls if parent else None)
        self.func = func if func is not None else (parent.func if parent else None)

    def lookup_var(self, name):
        e = self
        crossed_lambda = False
        while e:
            if name in e.vars:
                return e.vars[name] + (crossed_lambda,)
            if e.kind == 'lambda':
                crossed_lambda = True
            e = e.parent
        return None

    def lookup_func(self, name):
        e = self
        while e:
            if name in e.funcs:
                return e.funcs[name]
            e = e.parent
        return None

    def lookup_tvar(self, name):
        e = self
        while e:
            if name in e.tvars:
                return e.tvars[name]
            e = e.parent
        return None


class RC:
    def __init__(self, program, infer=False, lang=None):
        from src.ir import ast
        self.ast = ast
        self.p = program
        self.lang = lang or program.language
        self.infer = infer
        self.decls = list(program.context.get_declarations(ast.GLOBAL_NAMESPACE, only_current=True).values())
        self.classes = {d.name: d for d in self.decls if isinstance(d, ast.ClassDeclaration)}
        self.table = rm.table_from_decls(list(self.classes.values()))
        self.R = rm.RM(self.table)
        self.viol = []
        self.stats = {}
        f = program.bt_factory
        self.void = self.tt(f.get_void_type())
        self.boolean = self.tt(f.get_boolean_type())
        self.any = self.tt(f.get_any_type())
        self.keywords = None
        self._override_defaults = {}

    # ---------------------------------------------------------------- helpers
    def bump(self, k, n=1):
        self.stats[k] = self.stats.get(k, 0) + n

    def tt(self, t):
        if t is None:
            return None
        try:
            return rm.to_term(t, self.table)
        except TypeError:
            return UNK

    def dt(self, t):
        """declared-position type: a top-level wildcard means its bound."""
        r = self.tt(t)
        n = 0
        while r is not None and r[0] == 'p' and n < 5:
            r = r[2]
            n += 1
        if r == STAR:
            return TOP
        return r

    def report(self, rule, path, exp, act, node=None):
        key = (rule, '/'.join(str(x) for x in path), str(exp), str(act))
        seen = self.__dict__.setdefault('_reported', set())
        if key in seen:
            return
        seen.add(key)
        self.viol.append({'rule': rule, 'path': '/'.join(str(x) for x in path), 'node_id': id(node) if node is not None else None,
                          'after_undetermined': self.stats.get('undetermined_type_parameters', 0) > getattr(self, '_undet_mark', 0),
                          'expected': rm.show(exp) if isinstance(exp, tuple) else exp,
                          'actual': rm.show(act) if isinstance(act, tuple) else act,
                          'node': type(node).__name__ if node is not None else ''})

    def assignable(self, s, t):
        if s is None or t is None or s == UNK or t == UNK:
            self.bump('no_judgement')
            return True
        if s == BOT:
            return True
        if rm.is_proj(t):
            if t[0] == 'star':
                return False
            if t[1] == 'in':
                return self.R.sub(self.upper(s), t[2])
            if t[1] == 'inv':
                return self.R.sub(self.upper(s), t[2])
            return False
        return self.R.sub(self.upper(s), t)

    def upper(self, s):
        """value of a projected type: its upper bound."""
        if s is not None and rm.is_proj(s):
            if s[0] == 'p' and s[1] in ('out', 'inv'):
                return s[2]
            return TOP
        return s

    def check(self, rule, path, s, t, node=None):
        self.bump('positions')
        self.bump('positions_' + rule.split('-')[0])
        if not self.assignable(s, t):
            self.report(rule, path, t, s, node)

    # ---------------------------------------------------------------- classes and members
    def class_of(self, t):
        """(ClassDeclaration, theta) for member access on a value of type t."""
        if t is None:
            return None, {}
        k = t[0]
        if k == 'v':
            return self.class_of(t[2]) if t[2] is not None else (None, {})
        if k == 'p':
            return self.class_of(t[2]) if t[1] in ('out', 'inv') else (None, {})
        if k == 'cap':
            for h in t[3]:
                c, th = self.class_of(h)
                if c is not None:
                    return c, th
            return None, {}
        if k == 'c':
            return self.classes.get(t[1]), {}
        if k == 'i':
            c = self.classes.get(t[1])
            if c is None or len(c.type_parameters) != len(t[2]):
                return None, {}
            if any(rm.is_proj(a) for a in t[2]):
                return c, self.R.capture(t)
            return c, {p.name: a for p, a in zip(c.type_parameters, t[2])}
        return None, {}

    def super_of(self, c, th):
        """(super ClassDeclaration, theta') of class c under theta, or (None, {})."""
        if not c.superclasses:
            return None, {}
        st = rm.subst(self.tt(c.superclasses[0].class_type), th)
        return self.class_of(st)

    def chain(self, c, th):
        out = []
        n = 0
        while c is not None and n < 60:
            n += 1
            out.append((c, th))
            c, th = self.super_of(c, th)
        return out

    def find_member(self, t, name, kind):
        c, th = self.class_of(t)
        for cc, tth in self.chain(c, th):
            lst = cc.fields if kind == 'field' else cc.functions
            for m in lst:
                if m.name == name:
                    return m, tth, cc
        return None

    # ---------------------------------------------------------------- entry
    def run(self):
        if not self.infer:
            return self.run_once()
        # inferred return types of functions are taken from the previous pass (fixpoint iteration)
        self.fret = {}
        for it in range(3):
            self.viol = []
            self._reported = set()
            self.stats = {}
            self.fret_new = {}
            self._pass = it
            try:
                self.run_once()
            except WorkBudget:
                self.viol = []
                self.stats = {'rc_infer_work_budget_exceeded': 1}
                return self.viol
            stable = self.fret_new == self.fret
            self.fret = self.fret_new
            if stable and it > 0:
                break
        return self.viol

    def ret_of(self, f, call=None):
        """declared or (inference mode) inferred result type of a function."""
        if self.infer and f.ret_type is None:
            if id(f) in self.__dict__.get('_inferring', ()):
                # the result type of f is being inferred from a body that calls f: no compiler can infer it
                direct = call is not None and self.__dict__.get('_body_call', {}).get(id(f)) == id(call)
                self.report('R3-infer-recursive-result-type/%s' % ('body-is-the-call' if direct else 'call-nested-in-body'),
                            ['global', f.name], None, f.name, f)
            r = getattr(self, 'fret', {}).get(id(f))
            if r is not None:
                return r
        return self.dt(f.get_type())

    def run_once(self):
        ast = self.ast
        genv = Env(kind='global')
        for d in self.decls:
            self.declare_name(genv, d.name, ['global'], d)
            if isinstance(d, ast.VariableDeclaration):
                genv.vars[d.name] = (self.dt(d.get_type()), d)
            elif isinstance(d, ast.FunctionDeclaration):
                genv.funcs[d.name] = d
        self.genv = genv
        for d in self.decls:
            self._undet_mark = self.stats.get('undetermined_type_parameters', 0)
            if isinstance(d, ast.VariableDeclaration):
                self.var_decl(d, genv, ['global'], register=False)
            elif isinstance(d, ast.FunctionDeclaration):
                self.func_decl(d, genv, ['global'])
            elif isinstance(d, ast.ClassDeclaration):
                self.class_decl(d, genv, ['global'])
        return self.viol

    # ---------------------------------------------------------------- S7/S8 identifiers
    def declare_name(self, env, name, path, node=None, kind='decl'):
        self.bump('sites_S7')
        if name in env.names:
            self.report('S7-duplicate-identifier', path + [name], None, name, node)
        env.names.add(name)
        self.ident(name, path, node)

    def ident(self, name, path, node=None):
        if self.keywords is None:
            import os
            self.keywords = set()
            try:
                from src import utils
                kw = os.path.join(utils.RandomUtils.resource_path, '%s_keywords' % self.lang)
                if os.path.isfile(kw):
                    with open(kw) as f:
                        self.keywords = {l.strip() for l in f if l.strip()}
            except Exception:
                pass
        self.bump('sites_S8')
        if name in self.keywords:
            self.report('S8-reserved-word', path + [name], None, name, node)

    # ---------------------------------------------------------------- type well-formedness (R6, S6)
    def check_type(self, t, env, path, node=None, what='type'):
        """R6: explicit type arguments within bounds; S6: type variables in scope."""
        term = self.tt(t)
        self._check_term(term, env, path, node, what)
        return term

    def _check_term(self, term, env, path, node, what):
        if term is None or term == UNK:
            return
        k = term[0]
        if k == 'v':
            self.bump('sites_S6')
            if env.lookup_tvar(term[1]) is None:
                self.report('S6-type-variable-out-of-scope', path, None, term[1], node)
            return
        if k == 'p':
            self._check_term(term[2], env, path, node, what)
            return
        if k == 'c':
            if term[1] not in self.table.cls:
                self.report('S1-unknown-class', path, None, term[1], node)
            return
        if k != 'i':
            return
        info = self.table.cls.get(term[1])
        if info is None:
            self.report('S1-unknown-class', path, None, term[1], node)
            return
        if len(info['params']) != len(term[2]):
            self.report('R6-type-argument-arity', path, len(info['params']), len(term[2]), node)
            return
        th = {}
        for (pn, pv, pb), a in zip(info['params'], term[2]):
            th[pn] = a
        for (pn, pv, pb), a in zip(info['params'], term[2]):
            if a[0] == 'star':
                continue
            inner = a[2] if a[0] == 'p' else a
            if a[0] == 'p' and ((a[1] == 'in' and pv == 'out') or (a[1] == 'out' and pv == 'in')):
                self.report('R6-conflicting-projection', path + [term[1], pn], pv, rm.show(a), node)
            self._check_term(inner, env, path, node, what)
            if pb is not None and not (a[0] == 'p' and a[1] == 'in'):
                self.bump('positions')
                self.bump('positions_R6')
                b = rm.subst(pb, th)
                ok = True
                if rm.is_proj(b):
                    # the bound mentions a projected sibling argument (capture CAP): `out X`/`inv X` give
                    # CAP <: X (necessary condition inner <: X); `in X` gives X <: CAP, so inner <: X suffices
                    if b[0] == 'p':
                        ok = self.assignable(inner, b[2])
                    else:
                        ok = True
                        self.bump('no_judgement')
                else:
                    ok = self.assignable(inner, b)
                if not ok:
                    # the declared bound mentions other parameters of the class: the bound to meet depends on the other arguments
                    dep = '/dependent-bound' if set(rm.free_vars(pb)) & set(th) else ''
                    self.report('R6-type-argument-bound' + dep, path + [term[1], pn], b, inner, node)

    # ---------------------------------------------------------------- declarations
    def class_decl(self, c, genv, path):
        ast = self.ast
        p2 = path + [c.name]
        env = Env(genv, kind='class', cls=c)
        for tpar in c.type_parameters:
            self.declare_name(env, tpar.name, p2, tpar)
            env.tvars[tpar.name] = self.tt(tpar)
        for tpar in c.type_parameters:
            if tpar.bound is not None:
                self.check_type(tpar.bound, env, p2 + ['bound ' + tpar.name], tpar)
        self.class_obligations(c, env, p2)
        # members visible without receiver: own and inherited fields / functions
        ch = self.chain(c, {p.name: self.tt(p) for p in c.type_parameters})
        for cc, th in reversed(ch):
            for f in cc.fields:
                env.vars[f.name] = (rm.subst(self.dt(f.get_type()), th), f)
            for f in cc.functions:
                env.funcs[f.name] = (f, th) if cc is not c else f
        member_names = set()
        for f in c.fields:
            self.bump('sites_S7')
            if f.name in member_names:
                self.report('S7-duplicate-identifier', p2 + [f.name], None, f.name, f)
            member_names.add(f.name)
            self.ident(f.name, p2, f)
            self.check_type(f.get_type(), env, p2 + [f.name], f)
        fnames = set()
        for f in c.functions:
            self.bump('sites_S7')
            if f.name in fnames or f.name in member_names:
                self.report('S7-duplicate-identifier', p2 + [f.name], None, f.name, f)
            fnames.add(f.name)
            self.ident(f.name, p2, f)
        # super constructor call
        if c.superclasses:
            sc = c.superclasses[0]
            st = self.check_type(sc.class_type, env, p2 + ['extends'], sc)
            scd, sth = self.class_of(st)
            if scd is None:
                self.bump('no_judgement')
            elif sc.args is not None:
                self.bump('sites_S3')
                if len(sc.args) != len(scd.fields):
                    self.report('S3-super-constructor-arity', p2 + ['super'], len(scd.fields), len(sc.args), sc)
                cenv = Env(genv, kind='superargs', cls=c)
                cenv.tvars = env.tvars
                for a, f in zip(sc.args, scd.fields):
                    ft = rm.subst(self.dt(f.get_type()), sth)
                    self.check('R2-super-arg', p2 + ['super', f.name], self.ty(a, cenv, p2 + ['super'], ft), ft, a)
            elif not scd.is_interface() and scd.fields:
                self.report('S3-super-constructor-arity', p2 + ['super'], len(scd.fields), 0, sc)
        for f in c.functions:
            self.func_decl(f, env, p2, in_class=c)

    def class_obligations(self, c, env, path):
        """R7."""
        ast = self.ast
        self.bump('positions_R7')
        if not c.superclasses:
            ch = [(c, None)]
        if len(c.superclasses) > 1:
            kinds = [self.classes.get(s.class_type.name) for s in c.superclasses]
            if sum(1 for k in kinds if k is not None and not k.is_interface()) > 1:
                self.report('R7-multiple-superclasses', path, 1, len(c.superclasses), c)
        th0 = {p.name: self.tt(p) for p in c.type_parameters}
        ch = self.chain(c, th0)
        for sup, sth in ch[1:2]:
            if sup.is_final:
                self.report('R7-inherits-from-final-class', path, None, sup.name, c)
            if c.is_interface() and not sup.is_interface():
                self.report('R7-interface-extends-class', path, None, sup.name, c)
        # overrides
        for f in c.functions:
            ov = None
            for sup, sth in ch[1:]:
                for g in sup.functions:
                    if g.name == f.name:
                        ov = (g, sth, sup)
                        break
                if ov:
                    break
            if ov is None:
                if f.override:
                    self.report('R7-override-without-overridden', path + [f.name], None, f.name, f)
                continue
            g, sth, sup = ov
            self.bump('positions_R7')
            if not f.override:
                self.report('R7-hides-without-override', path + [f.name], None, sup.name, f)
            if g.is_final and g.body is not None and not sup.is_interface():
                self.report('R7-overrides-final-function', path + [f.name], None, sup.name, f)
            if len(g.params) != len(f.params) or len(g.type_parameters) != len(f.type_parameters):
                self.report('R7-override-arity', path + [f.name], len(g.params), len(f.params), f)
                continue
            ren = dict(sth)
            for gp, fp in zip(g.type_parameters, f.type_parameters):
                ren[gp.name] = self.tt(fp)
            for gp, fp in zip(g.params, f.params):
                gt = rm.subst(self.tt(gp.get_type()), ren)
                ft = self.tt(fp.get_type())
                if not self.same_type(gt, ft):
                    self.report('R7-override-parameter-type', path + [f.name, fp.name], gt, ft, f)
            grt = rm.subst(self.dt(g.get_type()), ren)
            frt = self.dt(f.get_type())
            if grt == self.void or frt == self.void:
                if grt != frt:
                    self.report('R7-override-return-type', path + [f.name], grt, frt, f)
            elif not self.assignable(frt, grt):
                self.report('R7-override-return-type', path + [f.name], grt, frt, f)
        # abstract members implemented
        if c.class_type == ast.ClassDeclaration.REGULAR:
            implemented = set()
            for cc, th in ch:
                for f in cc.functions:
                    if f.body is not None:
                        implemented.add(f.name)
                    elif f.name not in implemented:
                        self.bump('positions_R7')
                        # is it implemented nearer to c?
                        self.report('R7-abstract-member-not-implemented', path + [f.name], None, cc.name, c)
                        implemented.add(f.name)

    def same_type(self, a, b):
        if a == b:
            return True
        if a is None or b is None or a == UNK or b == UNK:
            return True
        ua, ub = self.upper(a), self.upper(b)
        return self.R.sub(ua, ub) and self.R.sub(ub, ua)

    def func_decl(self, f, env, path, in_class=None):
        ast = self.ast
        p2 = path + [f.name]
        fenv = Env(env, kind='func', func=f)
        for tpar in f.type_parameters:
            self.declare_name(fenv, tpar.name, p2, tpar)
            fenv.tvars[tpar.name] = self.tt(tpar)
        for tpar in f.type_parameters:
            if tpar.bound is not None:
                self.check_type(tpar.bound, fenv, p2 + ['bound ' + tpar.name], tpar)
        for p in f.params:
            pt = self.dt(p.get_type())
            self.check_type(p.get_type(), fenv, p2 + [p.name], p)
            if p.default is not None:
                self.check('R1-default', p2 + [p.name], self.ty(p.default, fenv, p2, pt), pt, p.default)
        for p in f.params:
            self.declare_name(fenv, p.name, p2, p)
            fenv.vars[p.name] = (self.dt(p.get_type()), p)
        if f.ret_type is not None:
            self.check_type(f.ret_type, fenv, p2 + ['return type'], f)
        if f.body is None:
            return
        rt = self.dt(f.get_type())
        infer = self.infer and f.ret_type is None
        exp = None if (rt == self.void or infer) else rt
        if infer:
            self.__dict__.setdefault('_inferring', set()).add(id(f))
            b0 = f.body
            if isinstance(b0, self.ast.Block) and len(b0.body) == 1:
                b0 = b0.body[0]
            self.__dict__.setdefault('_body_call', {})[id(f)] = id(b0)
        try:
            bt = self.body(f.body, fenv, p2, exp)
        finally:
            if infer:
                self._inferring.discard(id(f))
        if infer:
            self.bump('inferred_return_types')
            it_ = self.strip_cap(self.upper(bt))
            if it_ not in (None, UNK, BOT):
                self.fret_new[id(f)] = it_
                if rt is not None and not self.same_type(it_, rt):
                    self.bump('inferred_return_type_differs_from_recorded')
        elif rt != self.void:
            self.check('R3-result', p2, bt, rt, f.body)

    def infer_note(self, inferred, recorded, path, node):
        """Inference mode: the recorded type must be what the remaining
        program determines (up to mutual subtyping)."""
        if inferred in (None, UNK) or recorded in (None, UNK):
            self.bump('no_judgement')
            return
        self.bump('positions_infer')

    def body(self, b, env, path, exp):
        if isinstance(b, self.ast.Block):
            return self.block(b, env, path, exp)
        return self.ty(b, env, path, exp)

    def block(self, b, env, path, exp):
        ast = self.ast
        benv = Env(env)
        last = self.void
        n = len(b.body)
        # local functions are visible in the whole block only after their declaration (checked in order)
        for i, s in enumerate(b.body):
            if isinstance(s, ast.VariableDeclaration):
                self.var_decl(s, benv, path)
                last = self.void
            elif isinstance(s, ast.FunctionDeclaration):
                self.declare_name(benv, s.name, path, s)
                benv.funcs[s.name] = s
                self.func_decl(s, benv, path)
                last = self.void
            else:
                last = self.ty(s, benv, path, exp if i == n - 1 else None)
        return last

    def var_decl(self, d, env, path, register=True):
        vt = self.dt(d.get_type())
        infer = self.infer and d.var_type is None
        if d.var_type is not None:
            self.check_type(d.var_type, env, path + [d.name], d)
        et = self.ty(d.expr, env, path + [d.name], None if infer else vt)
        if infer:
            self.bump('inferred_var_types')
            it = self.upper(et)
            if it not in (UNK, BOT, None) and it[0] != 'cap':
                if not self.same_type(it, vt):
                    self.bump('inferred_var_type_differs_from_recorded')
                vt = it
        else:
            self.check('R1-init', path + [d.name], et, vt, d.expr)
        if register:
            self.declare_name(env, d.name, path, d)
            env.vars[d.name] = (vt, d)

    # ---------------------------------------------------------------- expressions
    INSENSITIVE = ('IntegerConstant', 'RealConstant', 'BooleanConstant', 'CharConstant', 'StringConstant', 'BottomConstant',
                   'Variable', 'FieldAccess', 'LogicalExpr', 'EqualityExpr', 'ComparisonExpr', 'ArithExpr', 'Is', 'Assignment')

    def ty(self, e, env, path, exp=None):
        m = getattr(self, 'ty_' + type(e).__name__, None)
        if m is None:
            self.bump('no_judgement')
            self.bump('unknown_node_' + type(e).__name__)
            return UNK
        if self.infer:
            # inference re-types arguments (once without, once with the expected type): cache what cannot depend on it,
            # and bound the total work (nested diamonds double it per level)
            cache = self.__dict__.setdefault('_tcache', {})
            k = (id(e), self.__dict__.get('_pass', 0))
            if type(e).__name__ in self.INSENSITIVE and k in cache:
                return cache[k]
            self._work = self.__dict__.get('_work', 0) + 1
            if self._work > 400000:
                raise WorkBudget()
            r = m(e, env, path, exp)
            cache[k] = r
            self._keep = self.__dict__.get('_keep', [])
            self._keep.append(e)
            return r
        self.bump('exprs')
        return m(e, env, path, exp)

    def ty_IntegerConstant(self, e, env, path, exp):
        return self.tt(e.integer_type) if e.integer_type is not None else self.tt(self.p.bt_factory.get_integer_type())

    def ty_RealConstant(self, e, env, path, exp):
        return self.tt(e.real_type) if e.real_type is not None else self.tt(self.p.bt_factory.get_double_type())

    def ty_BooleanConstant(self, e, env, path, exp):
        return self.boolean

    def ty_CharConstant(self, e, env, path, exp):
        return self.tt(self.p.bt_factory.get_char_type())

    def ty_StringConstant(self, e, env, path, exp):
        return self.tt(self.p.bt_factory.get_string_type())

    def ty_BottomConstant(self, e, env, path, exp):
        if e.t is None:
            return BOT
        self.check_type(e.t, env, path + ['bottom'], e)
        return self.dt(e.t)

    def ty_Variable(self, e, env, path, exp):
        self.bump('sites_S1')
        r = env.lookup_var(e.name)
        if r is None:
            self.report('S1-unresolved-variable', path, None, e.name, e)
            return UNK
        t, d, crossed = r
        if crossed and self.lang == 'java':
            self.bump('sites_S4')
            if isinstance(d, self.ast.VariableDeclaration) and not d.is_final:
                self.report('S4-java-lambda-captures-non-final-local', path, None, e.name, e)
        return t

    def _binop(self, e, env, path, exp):
        self.ty(e.lexpr, env, path)
        self.ty(e.rexpr, env, path)
        return self.boolean

    ty_LogicalExpr = _binop
    ty_EqualityExpr = _binop
    ty_ComparisonExpr = _binop

    def ty_ArithExpr(self, e, env, path, exp):
        a = self.ty(e.lexpr, env, path)
        self.ty(e.rexpr, env, path)
        return a

    def ty_Is(self, e, env, path, exp):
        self.ty(e.lexpr, env, path)
        self.check_type(e.rexpr, env, path + ['is'], e)
        return self.boolean

    def ty_ArrayExpr(self, e, env, path, exp):
        at = self.check_type(e.array_type, env, path + ['array'], e)
        if at is not None and at[0] == 'i' and len(at[2]) == 1:
            et = at[2][0]
            if rm.is_proj(et):
                et = self.upper(et)
            for x in e.exprs:
                self.check('R2b-array-element', path + ['[]'], self.ty(x, env, path, et), et, x)
        else:
            for x in e.exprs:
                self.ty(x, env, path)
        return at

    def ty_Conditional(self, e, env, path, exp):
        ast = self.ast
        ct = self.ty(e.cond, env, path)
        self.check('R4-condition-boolean', path, ct, self.boolean, e.cond)
        rec = self.dt(e.inferred_type)
        t = exp if (exp is not None and exp != UNK) else None
        tenv, fenv = Env(env), Env(env)
        if isinstance(e.cond, ast.Is) and isinstance(e.cond.lexpr, ast.Variable):
            r = env.lookup_var(e.cond.lexpr.name)
            tgt = fenv if e.cond.operator.is_not else tenv
            tgt.vars[e.cond.lexpr.name] = (self.tt(e.cond.rexpr), r[1] if r else None)
            self.bump('smart_casts')
        tb = self.body(e.true_branch, tenv, path + ['then'], t)
        fb = self.body(e.false_branch, fenv, path + ['else'], t)
        if t is not None:
            self.check('R4-branch', path + ['then'], tb, t, e.true_branch)
            self.check('R4-branch', path + ['else'], fb, t, e.false_branch)
        self.bump('conditionals')
        if rec is not None and not (self.assignable(tb, rec) and self.assignable(fb, rec)):
            self.bump('conditional_recorded_type_not_upper_bound')
        if self.infer and t is None and rec is not None and not (self.assignable(tb, rec) and self.assignable(fb, rec)):
            # no expected type and an inferred branch type no longer fits the recorded type: the compiler types the
            # conditional with the join of the branches (a use-site projection where the arguments differ)
            j = self.join(tb, fb)
            self.bump('conditional_join_used' if j is not None else 'no_judgement')
            return j if j is not None else UNK
        return rec

    def join(self, a, b, depth=0):
        """least upper bound of two branch types where it is simple to state; None = no judgement."""
        if a in (None, UNK) or b in (None, UNK) or depth > 4:
            return None
        if a == BOT:
            return b
        if b == BOT:
            return a
        ua, ub = self.upper(a), self.upper(b)
        if self.R.sub(ua, ub):
            return ub
        if self.R.sub(ub, ua):
            return ua
        if ua[0] == 'i' and ub[0] == 'i' and ua[1] == ub[1] and len(ua[2]) == len(ub[2]):
            args = []
            for x, y in zip(ua[2], ub[2]):
                if x == y:
                    args.append(x)
                elif rm.is_proj(x) or rm.is_proj(y):
                    return None
                else:
                    j = self.join(x, y, depth + 1)
                    args.append(('p', 'out', j) if (j is not None and not rm.is_proj(j) and j != TOP) else STAR)
            return ('i', ua[1], tuple(args))
        return None

    def ty_Block(self, e, env, path, exp):
        return self.block(e, env, path, exp)

    def ty_New(self, e, env, path, exp):
        ast = self.ast
        t = self.check_type(e.class_type, env, path + ['new'], e, what='new')
        if self.infer and getattr(e.class_type, 'can_infer_type_args', False):
            t = self.infer_new(e, t, env, path, exp)
        c, th = self.class_of(t)
        if c is None:
            for a in e.args:
                self.ty(a, env, path)
            if e.args:
                self.bump('no_judgement')
            return t
        self.bump('sites_S5')
        if c.class_type != ast.ClassDeclaration.REGULAR:
            self.report('S5-instantiates-non-regular-class', path, None, c.name, e)
        self.bump('sites_S3')
        if len(e.args) != len(c.fields):
            self.report('S3-constructor-arity', path, len(c.fields), len(e.args), e)
        # constructor parameters: no capture - the type arguments are the expected ones as written
        plain = {p.name: a for p, a in zip(c.type_parameters, t[2])} if t[0] == 'i' else {}
        for a, f in zip(e.args, c.fields):
            ft = rm.subst(self.dt(f.get_type()), plain)
            self.check('R2-constructor-arg', path + ['new ' + c.name, f.name], self.ty(a, env, path, ft), ft, a)
        return t

    def strip_cap(self, t):
        if t is not None and t[0] == 'cap':
            for h in t[3]:
                return self.strip_cap(h)
        return t

    def match(self, pat, typ, binds, names, pos='lo', depth=0):
        """Collect inference constraints for the variables `names` of pattern `pat` from type `typ`.
        pos = 'lo': typ <: pat (an argument flowing into a parameter), 'hi': pat <: typ (the result flowing
        into the expected type), 'eq': identical.  binds[name] = {'eq': [...], 'lo': [...], 'hi': [...]}."""
        if pat is None or typ in (None, UNK) or depth > 8:
            return
        typ = self.strip_cap(typ)
        flip = {'lo': 'hi', 'hi': 'lo', 'eq': 'eq'}
        if pat[0] == 'v' and pat[1] in names:
            if typ == BOT and pos != 'eq':
                return
            if rm.is_proj(typ):
                if typ == STAR:
                    return
                pos = {'out': 'hi', 'in': 'lo', 'inv': 'eq'}[typ[1]] if pos == 'eq' else pos
                typ = typ[2]
            binds.setdefault(pat[1], {'eq': [], 'lo': [], 'hi': []})[pos].append(typ)
            return
        if pat[0] == 'p':
            if typ == STAR:
                return
            inner = typ[2] if typ[0] == 'p' else typ
            self.match(pat[2], inner, binds, names, pos, depth + 1)
            return
        if pat[0] != 'i':
            return
        if rm.is_proj(typ):
            typ = self.upper(typ)
        if typ[0] == 'v' and typ[2] is not None:
            return self.match(pat, typ[2], binds, names, pos, depth + 1)
        cand = None
        if typ[0] == 'i' and typ[1] == pat[1]:
            cand, patc = typ, pat
        elif pos == 'lo' and typ[0] in ('i', 'c', 'b'):
            ups = [u for u in self.R.all_supers(typ, limit=40) if u[0] == 'i' and u[1] == pat[1]]
            if ups:
                cand, patc = ups[0], pat
        elif pos == 'hi' and typ[0] == 'i':
            # pattern class below the target class: match the pattern's declared supertype instead
            ups = [u for u in self.R.all_supers(pat, limit=40) if u[0] == 'i' and u[1] == typ[1]]
            if ups:
                cand, patc = typ, ups[0]
        if cand is None:
            return
        info = self.table.cls.get(cand[1])
        pvs = [pv for pn, pv, pb in info['params']] if info else ['inv'] * len(cand[2])
        for pa, ta, pv in zip(patc[2], cand[2], pvs):
            if ta == STAR or pa == STAR:
                continue
            npos = 'eq'
            if pv == 'out' or (pa[0] == 'p' and pa[1] == 'out'):
                npos = pos
            elif pv == 'in' or (pa[0] == 'p' and pa[1] == 'in'):
                npos = flip[pos]
            if ta[0] == 'p' and npos == 'eq':
                # a projection in the target / argument type bounds the variable instead of fixing it
                npos = {'out': 'hi', 'in': 'lo', 'inv': 'eq'}[ta[1]]
                if pos == 'lo':
                    npos = 'eq' if ta[1] == 'inv' else npos
            self.match(pa[2] if pa[0] == 'p' else pa, ta[2] if ta[0] == 'p' else ta, binds, names, npos, depth + 1)

    def solve(self, cons, recorded):
        """Pick the inferred type from collected constraints (None: undetermined)."""
        if not cons:
            return None
        eq = [t for t in cons['eq'] if t not in (None, UNK)]
        if eq:
            return eq[0]
        lo = [self.upper(t) for t in cons['lo'] if t not in (None, UNK)]
        hi = [self.upper(t) for t in cons['hi'] if t not in (None, UNK)]
        rec = recorded if recorded not in (None, UNK) and not rm.is_proj(recorded) else None
        if lo:
            for c in lo:
                if all(self.R.sub(x, c) for x in lo) and all(self.R.sub(c, h) for h in hi):
                    return c
            if rec is not None and all(self.R.sub(x, rec) for x in lo) and all(self.R.sub(rec, h) for h in hi):
                return rec          # a valid solution (the compiler's lub may be another supertype)
            self.bump('inference_join_not_modelled')
            return rec if rec is not None else lo[0]
        if hi:
            for c in hi:
                if all(self.R.sub(c, x) for x in hi):
                    return c
            return rec if rec is not None else hi[0]
        return None

    def undetermined(self, name, bound, binds, path, node, what):
        """type parameter that neither the arguments nor the target type determine."""
        self.bump('undetermined_type_parameters')
        if self.lang in ('java', 'groovy'):
            b = rm.subst(bound, binds) if bound is not None else None
            return b if (b is not None and not rm.is_proj(b)) else self.any
        if self.lang == 'scala':
            return BOT
        self.report('R6-infer-undetermined-type-parameter/' + what, path + [name], None, name, node)
        return UNK

    def infer_new(self, e, t, env, path, exp):
        """diamond / omitted constructor type arguments: infer them from the target type and the arguments."""
        self.bump('inferred_constructor_type_args')
        c, _ = self.class_of(t)
        if c is None or t[0] != 'i' or not c.type_parameters:
            return t
        names = [p.name for p in c.type_parameters]
        binds = {}
        selft = ('i', t[1], tuple(('v', p.name, self.tt(p.bound)) for p in c.type_parameters))
        target = self.strip_cap(exp) if exp not in (None, UNK, BOT, TOP) else None
        if target is not None and rm.is_proj(target):
            target = self.upper(target)
        if target is not None and target[0] == 'i':
            self.match(selft, target, binds, set(names), 'hi')
        for a, f in zip(e.args, c.fields):
            at = self.ty(a, env, path + ['infer'], None)
            self.match(self.dt(f.get_type()), at, binds, set(names), 'lo')
        args = []
        solved = {}
        for p, rec in zip(c.type_parameters, t[2]):
            r = self.solve(binds.get(p.name), rec)
            if r is None:
                r = self.undetermined(p.name, self.tt(p.bound), solved, path + ['new ' + c.name], e, 'constructor')
            solved[p.name] = r
            args.append(r)
        nt = ('i', t[1], tuple(a if a != UNK else r for a, r in zip(args, t[2])))
        if nt != t:
            self.bump('inferred_constructor_type_differs_from_recorded')
        return nt

    def infer_call(self, f, e, th, env, p2, exp):
        self.bump('inferred_call_type_args')
        names = {p.name for p in f.type_parameters}
        binds = {}
        named = {a.name: a for a in e.args if a.name}
        pos = [a for a in e.args if not a.name]
        pairs = []
        i = 0
        for p in f.params:
            if p.name in named:
                pairs.append((named[p.name], p))
            elif p.vararg:
                while i < len(pos):
                    pairs.append((pos[i], p))
                    i += 1
            elif i < len(pos):
                pairs.append((pos[i], p))
                i += 1
        for a, p in pairs:
            at = self.ty(a.expr, env, p2 + ['infer'], None)
            pt = rm.subst(self.dt(p.get_type()), th)
            if p.vararg and pt is not None and pt[0] == 'i' and len(pt[2]) == 1:
                pt = pt[2][0]
            self.match(pt, at, binds, names, 'lo')
        target = self.strip_cap(exp) if exp not in (None, UNK, BOT, TOP) else None
        if target is not None and rm.is_proj(target):
            target = self.upper(target)
        if target is not None:
            self.match(rm.subst(self.dt(f.get_type()), th), target, binds, names, 'hi')
        solved = {}
        for tpar, rec in zip(f.type_parameters, list(e.type_args) + [None] * len(f.type_parameters)):
            r = self.solve(binds.get(tpar.name), self.dt(rec) if rec is not None else None)
            if r is None:
                r = self.undetermined(tpar.name, self.tt(tpar.bound), solved, p2, e, 'call')
                if r == UNK:
                    r = self.dt(rec) if rec is not None else UNK
            solved[tpar.name] = r
            th[tpar.name] = r

    def ty_FieldAccess(self, e, env, path, exp):
        rt = self.ty(e.expr, env, path)
        self.bump('sites_S2')
        if rt in (UNK, BOT, None):
            self.bump('no_judgement')
            return UNK
        r = self.find_member(rt, e.field, 'field')
        if r is None:
            self.report('S2-unresolved-field', path, rt, e.field, e)
            return UNK
        f, th, c = r
        return rm.subst(self.dt(f.get_type()), th)

    def fun_sig(self, t):
        """(param types..., result) of a function-typed term, or None."""
        t = self.upper(t)
        if t is not None and t[0] == 'cap':
            for h in t[3]:
                s = self.fun_sig(h)
                if s is not None:
                    return s
            return None
        if t is not None and t[0] == 'v' and t[2] is not None:
            return self.fun_sig(t[2])
        if t is not None and t[0] == 'i' and t[1].startswith('Function') and t[1][8:].isdigit():
            return t[2]
        return None

    def ty_FunctionCall(self, e, env, path, exp):
        ast = self.ast
        p2 = path + [e.func + '()']
        if e.is_ref_call:
            return self.ref_call(e, env, p2, exp)
        th = {}
        self.bump('sites_S1' if e.receiver is None else 'sites_S2')
        if e.receiver is None:
            r = env.lookup_func(e.func)
            if r is None:
                self.report('S1-unresolved-function', p2, None, e.func, e)
                for a in e.args:
                    self.ty(a.expr, env, p2)
                return UNK
            if isinstance(r, tuple):
                f, th = r
                th = dict(th)
            else:
                f = r
        else:
            rt = self.ty(e.receiver, env, p2)
            if rt in (UNK, BOT, None):
                for a in e.args:
                    self.ty(a.expr, env, p2)
                self.bump('no_judgement')
                return UNK
            m = self.find_member(rt, e.func, 'func')
            if m is None:
                self.report('S2-unresolved-method', p2, rt, e.func, e)
                for a in e.args:
                    self.ty(a.expr, env, p2)
                return UNK
            f, th, c = m
            th = dict(th)
        if f.type_parameters and self.infer and getattr(e, 'can_infer_type_args', False):
            self.infer_call(f, e, th, env, p2, exp)
        elif f.type_parameters:
            targs = list(e.type_args)
            if len(targs) != len(f.type_parameters):
                if targs or not self.infer:
                    self.report('R6-call-type-argument-arity', p2, len(f.type_parameters), len(targs), e)
                targs = []
            for tpar, ta in zip(f.type_parameters, targs):
                self.check_type(ta, env, p2 + ['<' + tpar.name + '>'], e)
                th[tpar.name] = self.dt(ta)
            for tpar, ta in zip(f.type_parameters, targs):
                if tpar.bound is None:
                    continue
                self.bump('positions')
                self.bump('positions_R6')
                b = rm.subst(self.tt(tpar.bound), th)
                a = self.dt(ta)
                if rm.is_proj(b):
                    ok = a == BOT or (b[0] == 'p' and b[1] in ('in', 'inv') and self.assignable(a, b[2]))
                else:
                    ok = self.assignable(a, b)
                if not ok:
                    # the declared bound mentions type parameters that this call (or its receiver) instantiates
                    b0 = self.tt(tpar.bound)
                    dep = '/dependent-bound' if any(th.get(v) not in (None,) and (th[v][0] != 'v' or th[v][1] != v)
                                                    for v in rm.free_vars(b0)) else ''
                    self.report('R6-call-type-argument-bound' + dep, p2 + [tpar.name], b, a, e)
        self.call_args(f, e.args, th, env, p2, e)
        rt_ = self.ret_of(f, e)
        return rm.subst(rt_, th)

    def defaults_inherited(self, f):
        return f

    def call_args(self, f, args, th, env, p2, node):
        self.bump('sites_S3')
        params = list(f.params)
        named = {a.name: a for a in args if a.name}
        pos = [a for a in args if not a.name]
        pnames = {p.name for p in params}
        for n in named:
            if n not in pnames:
                self.report('S3-unknown-named-argument', p2, None, n, node)
        i = 0
        for k, p in enumerate(params):
            pt = rm.subst(self.dt(p.get_type()), th)
            if p.vararg:
                et = UNK
                base = self.upper(pt)
                if base is not None and base[0] == 'i' and len(base[2]) == 1:
                    et = self.upper(base[2][0])
                if p.name in named:
                    a = named[p.name]
                    self.check('R2-call-arg', p2 + [p.name], self.ty(a.expr, env, p2, pt), pt, a)
                    continue
                rest = len([q for q in params[k + 1:] if q.default is None and q.name not in named])
                while i < len(pos) - rest:
                    self.check('R2-vararg-element', p2 + [p.name], self.ty(pos[i].expr, env, p2, et), et, pos[i])
                    i += 1
                continue
            if p.name in named:
                a = named[p.name]
            elif i < len(pos):
                a = pos[i]
                i += 1
            else:
                if not self.has_default(f, p, k):
                    self.report('S3-missing-argument', p2 + [p.name], None, None, node)
                continue
            self.check('R2-call-arg', p2 + [p.name], self.ty(a.expr, env, p2, pt), pt, a)
        if i < len(pos):
            self.report('S3-too-many-arguments', p2, len(params), len(args), node)
            for a in pos[i:]:
                self.ty(a.expr, env, p2)

    def has_default(self, f, p, k):
        if p.default is not None:
            return True
        # an overriding function inherits the default values of the overridden one (Kotlin / Scala by rule;
        # Groovy / Java through the inherited overload that a default parameter generates)
        if getattr(f, 'override', False):
            for c in self.classes.values():
                if f in c.functions:
                    for sup, sth in self.chain(c, {})[1:]:
                        for g in sup.functions:
                            if g.name == f.name and len(g.params) == len(f.params):
                                if g.params[k].default is not None:
                                    return True
                                return self.has_default(g, g.params[k], k)
        return False

    def ref_call(self, e, env, p2, exp):
        self.bump('sites_S1' if e.receiver is None else 'sites_S2')
        if e.receiver is None:
            r = env.lookup_var(e.func)
            if r is None:
                self.report('S1-unresolved-function-variable', p2, None, e.func, e)
                for a in e.args:
                    self.ty(a.expr, env, p2)
                return UNK
            ft = r[0]
        else:
            rt = self.ty(e.receiver, env, p2)
            if rt in (UNK, BOT, None):
                for a in e.args:
                    self.ty(a.expr, env, p2)
                self.bump('no_judgement')
                return UNK
            m = self.find_member(rt, e.func, 'field')
            if m is None:
                self.report('S2-unresolved-function-field', p2, rt, e.func, e)
                for a in e.args:
                    self.ty(a.expr, env, p2)
                return UNK
            f, th, c = m
            ft = rm.subst(self.dt(f.get_type()), th)
        sig = self.fun_sig(ft)
        if sig is None:
            self.report('S1-called-value-is-not-a-function', p2, ft, e.func, e)
            for a in e.args:
                self.ty(a.expr, env, p2)
            return UNK
        self.bump('sites_S3')
        if len(sig) - 1 != len(e.args):
            self.report('S3-function-value-arity', p2, len(sig) - 1, len(e.args), e)
        for a, pt in zip(e.args, sig[:-1]):
            # parameter position of a function type: `in X` accepts X, `out X`/`*` accept only bottom
            if rm.is_proj(pt):
                if pt[0] == 'p' and pt[1] in ('in', 'inv'):
                    pt2 = pt[2]
                else:
                    pt2 = BOT
            else:
                pt2 = pt
            at = self.ty(a.expr, env, p2, pt2 if pt2 != BOT else None)
            if pt2 == BOT:
                self.bump('positions')
                if at not in (BOT, UNK, None):
                    self.report('R2-function-value-arg', p2, pt, at, a)
            else:
                self.check('R2-function-value-arg', p2, at, pt2, a)
        r = sig[-1]
        return self.upper(r)

    def ty_Lambda(self, e, env, path, exp):
        p2 = path + ['lambda ' + str(e.name)]
        lenv = Env(env, kind='lambda')
        for p in e.params:
            self.check_type(p.get_type(), env, p2 + [p.name], p)
            self.declare_name(lenv, p.name, p2, p)
            lenv.vars[p.name] = (self.dt(p.get_type()), p)
        rt = self.dt(e.ret_type)
        if e.ret_type is not None:
            self.check_type(e.ret_type, env, p2 + ['return type'], e)
        if e.body is not None:
            bt = self.body(e.body, lenv, p2, rt if rt != self.void else None)
            if rt is not None and rt != self.void:
                self.check('R3-lambda-result', p2, bt, rt, e.body)
        sig = self.tt(e.signature)
        return self.coerce_sam(sig, exp, p2, e)

    def sam_sig(self, t):
        c, th = self.class_of(t)
        if c is None or not c.is_interface():
            return None
        abst = []
        seen = set()
        for cc, tth in self.chain(c, th):
            for f in cc.functions:
                if f.name in seen:
                    continue
                seen.add(f.name)
                if f.body is None:
                    abst.append((f, tth))
        if len(abst) != 1:
            return None
        f, tth = abst[0]
        if f.type_parameters:
            return None
        ps = tuple(rm.subst(self.dt(p.get_type()), tth) for p in f.params)
        return ps + (rm.subst(self.dt(f.get_type()), tth),)

    def coerce_sam(self, sig, exp, path, node):
        """A lambda / function reference given where a functional interface is
        expected has that interface type iff its signature fits the single
        abstract method."""
        if exp is None or exp in (UNK, BOT, TOP) or sig in (None, UNK):
            return sig
        target = self.upper(exp)
        if target is None or target[0] not in ('c', 'i'):
            return sig
        if target[0] == 'i' and target[1].startswith('Function') and target[1][8:].isdigit():
            return sig
        ss = self.sam_sig(target)
        if ss is None or sig[0] != 'i':
            return sig
        a = sig[2]
        self.bump('sam_coercions')
        if len(a) != len(ss):
            self.report('R2-sam-arity', path, len(ss) - 1, len(a) - 1, node)
            return sig
        ok = True
        for x, y in zip(a[:-1], ss[:-1]):
            # parameter: the lambda must accept what the method receives
            if not self.assignable(self.upper(y) if not rm.is_proj(y) else (y[2] if y[0] == 'p' else TOP),
                                   self.lower_or_self(x)):
                ok = False
        rx, ry = a[-1], ss[-1]
        if ry != self.void and not self.assignable(self.upper(rx), self.upper(ry) if not (rm.is_proj(ry) and ry[0] == 'p' and ry[1] == 'in') else TOP):
            ok = False
        if ok:
            return exp
        self.bump('sam_signature_mismatch')
        return sig

    def lower_or_self(self, x):
        if rm.is_proj(x):
            if x[0] == 'p' and x[1] in ('in', 'inv'):
                return x[2]
            return TOP if x[0] == 'star' else x[2]
        return x

    def ty_FunctionReference(self, e, env, path, exp):
        p2 = path + ['::' + e.func]
        self.bump('sites_S1' if e.receiver is None else 'sites_S2')
        f = None
        th = {}
        if e.receiver is not None:
            rt = self.ty(e.receiver, env, p2)
            if rt not in (UNK, BOT, None):
                m = self.find_member(rt, e.func, 'func')
                if m is None:
                    self.report('S2-unresolved-method-reference', p2, rt, e.func, e)
                else:
                    f, th, _ = m
        else:
            r = env.lookup_func(e.func)
            if r is None:
                self.report('S1-unresolved-function-reference', p2, None, e.func, e)
            elif isinstance(r, tuple):
                f, th = r
            else:
                f = r
        sig = self.tt(e.signature)
        if f is not None and sig is not None and sig != UNK and sig[0] == 'i' and not f.type_parameters:
            want = len(f.params) + 1
            self.bump('sites_S3')
            if len(sig[2]) != want:
                self.report('S3-function-reference-arity', p2, want - 1, len(sig[2]) - 1, e)
            else:
                for x, p in zip(sig[2][:-1], f.params):
                    pt = rm.subst(self.dt(p.get_type()), th)
                    xs = self.lower_or_self(x)
                    self.bump('positions')
                    if not self.assignable(xs, pt):
                        self.report('R2-function-reference-parameter', p2 + [p.name], pt, xs, e)
                rt_ = rm.subst(self.dt(f.get_type()), th)
                rx = self.upper(sig[2][-1])
                if rt_ != self.void and rx != self.void:
                    self.bump('positions')
                    if not self.assignable(rt_, rx):
                        self.report('R3-function-reference-result', p2, rx, rt_, e)
        return self.coerce_sam(sig, exp, p2, e)

    def ty_Assignment(self, e, env, path, exp):
        ast = self.ast
        p2 = path + [e.name + '=']
        if e.receiver is None:
            self.bump('sites_S1')
            r = env.lookup_var(e.name)
            if r is None:
                self.report('S1-unresolved-assignment-target', p2, None, e.name, e)
                self.ty(e.expr, env, p2)
                return self.void
            vt, d, crossed = r
            self.bump('sites_S4')
            if isinstance(d, ast.ParameterDeclaration):
                self.report('S4-assigns-parameter', p2, None, e.name, e)
            elif getattr(d, 'is_final', True):
                self.report('S4-assigns-final-variable', p2, None, e.name, e)
            if crossed and self.lang == 'java' and isinstance(d, ast.VariableDeclaration):
                self.report('S4-java-lambda-assigns-captured-local', p2, None, e.name, e)
            # (a top-level variable assigned inside a function is tagged: the mutations analyse each function against a
            # cached graph of the top-level declarations, a different code path from locals)
            top = any(d is x for x in self.decls) and len(path) > 1
            self.check('R5-assignment' + ('/top-level-variable' if top else ''), p2, self.ty(e.expr, env, p2, vt), vt, e.expr)
        else:
            rt = self.ty(e.receiver, env, p2)
            self.bump('sites_S2')
            if rt in (UNK, BOT, None):
                self.ty(e.expr, env, p2)
                self.bump('no_judgement')
                return self.void
            m = self.find_member(rt, e.name, 'field')
            if m is None:
                self.report('S2-unresolved-assignment-field', p2, rt, e.name, e)
                self.ty(e.expr, env, p2)
                return self.void
            f, th, c = m
            self.bump('sites_S4')
            if f.is_final:
                self.report('S4-assigns-final-field', p2, None, e.name, e)
            ft = rm.subst(self.dt(f.get_type()), th)
            self.check('R5-field-assignment', p2, self.ty(e.expr, env, p2, ft), ft, e.expr)
        return self.void


def check_program(program, infer=False):
    c = RC(program, infer=infer)
    v = c.run()
    return v, c.stats
