"""C11 — translation is a pure function of the program.

A pool of programs (generated, erased, overwritten; plus the hand-built
fixture programs of tests/resources/translators, which are the only ones with
`Is`/smart casts) and a pool of translator objects for all four languages are
driven by Hypothesis-drawn histories of operations.  Oracle: the text first
obtained for (program, language, package, options) from a fresh translator is
byte-identical on every later translation, whichever translator object is
used and whatever happened in between; the program is structurally unchanged
(parallel structural diff against a deep copy taken before any translation).
"""
import copy
import hashlib

from hypothesis import strategies as st

from vlib import boot, hyp, pg, sd

LEVEL = 'exploration'
RULE = ('case = history of <=14 operations over a pool of programs (stages G/E/O of generated programs plus translator '
        'fixture programs) and reusable translator objects (2 per language, 4 languages): translate(program, reused object), '
        'translate(program, fresh object), set_package(object, pkg), set_options; after the history every touched program is '
        'diffed structurally against its pre-translation twin; non-trivial = one translator object was reused for >= 3 '
        'translations of >= 2 different programs; distinct = distinct (pool id, operation list)')
ASSUMPTIONS = [
    'a cross-language translation that raises is an unsupported combination: it only has to raise the same exception type again',
    'aliasing structure and pickle bytes are not part of "the program is unchanged" (some translators re-bind equal objects)',
]
MIN_NONTRIVIAL = {'quick': 60, 'thorough': 1500}
NSHARDS = 16
HARD_TIMEOUT = {'quick': 1500, 'thorough': 4 * 3600}
PKGS = ['src.alpha', 'src.beta']
OPTS = [{'cast_numbers': False}, {'cast_numbers': True}]


def shards(tier):
    return [{'k': k, 'lang': boot.LANGS[k % 4]} for k in range(NSHARDS)]


def build_pool(lang, specs, col=None):
    """specs: list of {'seed','switches','limits'} -> list of (label, program)."""
    pool = []
    for sp in specs:
        if 'handmade_seed' in sp:
            # hand-shaped programs (vlib/handprog.py): nested functions with up to 5 parameters and varargs, explicit
            # type arguments, recursive functions - shapes the generator reaches rarely or (arity > 3) never
            case = pg.hand_case(lang, seed=sp['handmade_seed'])
            pool.append(('H:%d' % sp['handmade_seed'], case.program))
            try:
                e = pg.clone(case.program)
                pg.erase(e, lang)
                pool.append(('HE:%d' % sp['handmade_seed'], e))
            except Exception:
                if col is not None:
                    col.feature('pool_stage_failed')
            continue
        if 'fixture' in sp:
            p = load_fixture(sp['fixture'], lang)
            if p is not None:
                pool.append(('fixture:%s' % sp['fixture'], p))
            continue
        utils = boot._state['utils']
        full_words = utils.random.INITIAL_WORDS
        if sp.get('small_words'):
            # a thinned identifier pool (every program is one the tool can generate - just with names that are
            # likely to recur in the next program, in another role)
            utils.random.INITIAL_WORDS = set(sorted(full_words)[::max(1, len(full_words) // 450)])
        try:
            case = pg.gen_case(lang, 'seed', sp['seed'], sp.get('switches', ()), sp.get('limits'))
        finally:
            utils.random.INITIAL_WORDS = full_words
        if case.program is None:
            continue
        g = case.program
        pool.append(('G:%d' % sp['seed'], g))
        try:
            e = pg.clone(g)
            pg.erase(e, lang)
            pool.append(('E:%d' % sp['seed'], e))
            o = pg.clone(e)
            boot._state['utils'].random.r.seed(sp['seed'] + 1)
            t = pg.overwrite(o, lang)
            if t.is_transformed:
                pool.append(('O:%d' % sp['seed'], o))
        except Exception:
            if col is not None:
                col.feature('pool_stage_failed')
    return pool


def load_fixture(name, lang):
    if lang not in ('java', 'groovy'):
        return None
    import importlib
    try:
        mod = importlib.import_module('tests.resources.translators.' + name)
        types = importlib.import_module('src.ir.%s_types' % lang)
        p = mod.produce_program(lang, types)
        pg.translate(pg.clone(p), lang)      # usable fixtures only
        return p
    except Exception:
        return None


def op_strategy(npool, own):
    prog = st.integers(0, npool - 1)
    lang = st.sampled_from([own] * 5 + boot.LANGS)
    slot = st.sampled_from([0, 0, 0, 1])
    return st.lists(st.one_of(
        st.tuples(st.just('T'), prog, lang, slot),
        st.tuples(st.just('T'), prog, lang, slot),
        st.tuples(st.just('F'), prog, lang),
        st.tuples(st.just('P'), lang, slot, st.integers(0, 1)),
    ), min_size=2, max_size=14)


class Session:
    def __init__(self, lang, pool):
        self.lang = lang
        self.pool = pool
        self.twins = [copy.deepcopy(p) for _, p in pool]
        self.golden = {}

    def reset_translators(self):
        self.tr = {}
        self.pkg = {}

    def translator(self, lang, slot):
        k = (lang, slot)
        if k not in self.tr:
            self.tr[k] = boot.translator_class(lang)(PKGS[0], dict(OPTS[0]))
            self.pkg[k] = 0
        return self.tr[k]

    def do_translate(self, prog_i, lang, tr):
        from src import utils
        try:
            return utils.translate_program(tr, self.pool[prog_i][1])
        except RecursionError:
            return 'EXC:RecursionError'
        except Exception as e:
            return 'EXC:' + type(e).__name__

    def run(self, ops, col, pool_id, record=True):
        """Execute one history; returns list of (signature, detail)."""
        self.reset_translators()
        viols = []
        touched = set()
        uses = {}
        for op in ops:
            if op[0] == 'P':
                _, lang, slot, pi = op
                tr = self.translator(lang, slot)
                tr.package = PKGS[pi]
                self.pkg[(lang, slot)] = pi
                continue
            if op[0] == 'T':
                _, i, lang, slot = op
                tr = self.translator(lang, slot)
                pi = self.pkg[(lang, slot)]
                uses.setdefault((lang, slot), []).append(i)
                how = 'reused-object'
            else:
                _, i, lang = op
                pi = 0
                tr = boot.translator_class(lang)(PKGS[0], dict(OPTS[0]))
                how = 'fresh-object'
            gk = (i, lang, pi)
            if gk not in self.golden:
                fresh = boot.translator_class(lang)(PKGS[pi], dict(OPTS[0]))
                self.golden[gk] = self.do_translate(i, lang, fresh)
                touched.add(i)
            text = self.do_translate(i, lang, tr)
            touched.add(i)
            if text != self.golden[gk]:
                own = 'own-language' if lang == self.lang else 'cross-language'
                kind = 'exception-differs' if (text.startswith('EXC:') or self.golden[gk].startswith('EXC:')) else 'text-differs'
                viols.append(('C11/%s/%s/%s/%s' % (kind, lang, how, own),
                              {'program': self.pool[i][0], 'translator': lang, 'how': how,
                               'first_difference': _first_diff(self.golden[gk], text)}))
        for i in sorted(touched):
            d = sd.pdiff(self.twins[i], self.pool[i][1], limit=4,
                         skip=lambda o, a: type(o).__name__ == 'Context' and a == '_namespaces')  # deep-copy artifact, see C13/C16
            if d:
                viols.append(('C11/program-modified/%s' % _attr_of(d[0][0]),
                              {'program': self.pool[i][0], 'diff': [list(map(str, x)) for x in d]}))
                self.pool[i] = (self.pool[i][0], copy.deepcopy(self.twins[i]))
                self.golden = {k: v for k, v in self.golden.items() if k[0] != i}
        nontriv = any(len(v) >= 3 and len(set(v)) >= 2 for v in uses.values())
        if record:
            col.case(key=(pool_id, [list(o) for o in ops]), nontrivial=nontriv,
                     sample=lambda: {'program_language': self.lang, 'pool': [l for l, _ in self.pool],
                                     'history': [list(o) for o in ops]})
            col.feature('histories')
            col.feature('translations', sum(1 for o in ops if o[0] != 'P'))
            if any(o[0] == 'T' and o[2] != self.lang for o in ops):
                col.feature('histories_with_cross_language')
            if any(self.pool[o[1]][0][0] == 'H' for o in ops if o[0] != 'P'):
                col.feature('histories_with_handmade_program')
            if any(self.pool[o[1]][0].startswith('fixture') for o in ops if o[0] != 'P'):
                col.feature('histories_with_fixture_program')
            if any(self.pool[o[1]][0][0] in 'EO' for o in ops if o[0] != 'P'):
                col.feature('histories_with_mutated_program')
        return viols


def _first_diff(a, b):
    n = min(len(a), len(b))
    i = next((j for j in range(n) if a[j] != b[j]), n)
    return {'at': i, 'expected': a[max(0, i - 40):i + 60], 'got': b[max(0, i - 40):i + 60]}


def _attr_of(path):
    import re
    parts = re.findall(r'\.([A-Za-z_]+)', path)
    return parts[-1] if parts else 'root'


def pool_specs(col, quick):
    import random
    rnd = random.Random(col.shard_seed('pool'))
    n = 3 if quick else 8
    specs = []
    for j in range(n):
        limits = {'max_depth': rnd.choice([3, 4, 5, 6]), 'min_top_level': 2, 'max_top_level': rnd.choice([4, 6, 8])}
        sw = [s for s in boot.SWITCHES if rnd.random() < 0.2]
        seed = rnd.randrange(2 ** 31)
        specs.append({'seed': seed, 'switches': sw, 'limits': limits})
        # a sibling generated from the same seed under other limits: it shares many identifiers with the first
        # program, but in other roles (top-level vs local vs field) - state keyed by *names* that survives from one
        # translation to the next only shows up on such pairs
        lim2 = dict(limits, max_depth=max(2, limits['max_depth'] - 1), max_top_level=limits['max_top_level'] + 2,
                    max_var_decls=rnd.choice([1, 2, 4]))
        specs.append({'seed': seed + 1, 'switches': sw, 'limits': lim2, 'small_words': True})
        specs[-2]['small_words'] = True
    for f in ('program1', 'program2', 'program3', 'program4', 'program5', 'program6'):
        specs.append({'fixture': f})
    for j in range(3 if quick else 6):
        specs.append({'handmade_seed': rnd.randrange(2 ** 31)})
    return specs


def run_shard(spec, col):
    lang = spec['lang']
    boot.init(lang)
    quick = col.tier == 'quick'
    rounds = 1 if quick else 6
    for r in range(rounds):
        specs = pool_specs(col, quick) if r == 0 else pool_specs_round(col, quick, r)
        pool = build_pool(lang, specs, col)
        if not pool:
            continue
        pool_id = hashlib.sha1(repr(specs).encode()).hexdigest()[:10]
        ses = Session(lang, pool)
        col.add_extra('pool_programs', len(pool))

        def one(ops):
            for sig, detail in ses.run(ops, col, pool_id):
                col.violation(sig, detail, {'lang': lang, 'pool': specs, 'ops': [list(o) for o in ops]},
                              size=len(ops))
        hyp.explore(op_strategy(len(pool), lang), one, 40 if quick else 250, col.shard_seed('ops%d' % r))


def pool_specs_round(col, quick, r):
    import random
    rnd = random.Random(col.shard_seed('pool%d' % r))
    specs = []
    for j in range(8):
        limits = {'max_depth': rnd.choice([2, 3, 4, 5, 6]), 'min_top_level': 1, 'max_top_level': rnd.choice([3, 6, 10])}
        sw = [s for s in boot.SWITCHES if rnd.random() < 0.25]
        specs.append({'seed': rnd.randrange(2 ** 31), 'switches': sw, 'limits': limits})
    return specs


def replay(case, col):
    boot.init(case['lang'])
    pool = build_pool(case['lang'], case['pool'], col)
    ses = Session(case['lang'], pool)
    ops = [tuple(o) for o in case['ops']]
    for sig, detail in ses.run(ops, col, 'replay'):
        col.violation(sig, detail, case, size=len(ops))
