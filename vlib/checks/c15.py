"""C15 — the driver reports a fault exactly on an oracle mismatch and counts correctly.

Every session is one run of the real `hephaestus.main()` (hence `run` /
`run_parallel`, `_run`, `get_batches`, `stop_condition`, `gen_program`,
`process_*_transformations`, `save_program`, `check_oracle`, `update_stats`,
`save_stats` and the real compiler classes) in a fresh interpreter
(`vlib/c15_driver.py`), with the compiler invocation replaced by a scripted
stand-in that renders real-format output from the plan, and the generator /
transformations / translator replaced by stubs (a small share of sessions uses
the real generator at --max-depth 2).  The verdicts are judged here against a
reference model written from the property text.
"""
import hashlib
import itertools
import json
import os
import random
import re
import shutil
import subprocess
import tempfile

from vlib import c15_driver as drv

LEVEL = 'fault_enumeration'
RULE = (
    'session = plan {language, argv (--batch N, -i M, -t T, [--workers K], [-P]), per-program planned outcome '
    '(tool failure early/mid/late | has incorrect twin, correct-file verdict, incorrect-file verdict, number of '
    'diagnostics, noise), compiler-crash trigger programs}; (a) exhaustive decision table: every batch of 1..3 '
    'programs over the 9 behaviourally distinct per-program layouts {tool failed before anything was written, tool '
    'failed after the correct file was written x correct verdict ok/error, no twin x correct ok/error, twin x correct '
    'ok/error x incorrect ok/error} (the 16 literal flag combinations collapse onto these) x {compiler crash on the '
    'batch}, in all four languages sequentially and once more in worker-pool mode (quick: all batches of 1-2 plus a '
    'seeded slice of 256 of the 1458 three-program batches; thorough: all 1638), many table rows per session; '
    '(b) Hypothesis-drawn sessions of 1..6 batches (batch size 1..4, last batch shorter, also --batch > -i), 1/3 of '
    'them with --workers 2..4, 1/10 with the real generator; a session that the tool aborts is continued in a fresh '
    'session with the remaining programs. evaluations = judged batches + judged sessions; a batch is non-trivial '
    'when it holds >= 2 different per-program outcomes, a session when it has >= 3 batches; distinct = distinct '
    '(language, mode, batch outcome tuple, crash) resp. distinct plan')
ASSUMPTIONS = [
    'the compiler is a scripted stand-in: it expands the real command line, attributes each source file it finds to '
    '(program, role) and prints diagnostics in the format of javac 17 (validated against the installed javac in the '
    'run), kotlinc, groovyc and scala 3; the messages avoid text that the crash patterns of the compiler classes '
    'would match (parsing of arbitrary diagnostics is C14)',
    'stub mode replaces ProgramProcessor (generator, transformations, fault injection) and utils.translate_program; '
    'gen_program, process_cp/ncp_transformations, save_program, the oracle map and the ProgramRes are the real ones; '
    'a tool failure is an exception raised inside generation, a transformation or the fault injection',
    'scratch paths consist of [A-Za-z0-9_/] only (the error patterns of the compiler classes do not match other '
    'characters in a path)',
    '"programs processed" = programs handed to gen_program; in iterations mode a finished session is expected to have '
    'processed exactly -i programs in batches of at most --batch (command-line help of -i / --batch)',
    'a tool-failed program needs no saved test case; for a program that is faulty for two reasons either message is '
    'accepted; a saved test case = directory <bugs>/<name>/<pid>/ with at least one source file',
    'worker-pool sessions are judged at quiescence (after main() returned); the order of counter updates is free, '
    'passed+failed must equal the size of some set of as many batches as updates were made',
    '--debug, --rerun, --keep-all, --dry-run, --seconds are outside the domain',
]
MIN_NONTRIVIAL = {'quick': 100, 'thorough': 2000}
HARD_TIMEOUT = {'quick': 1800, 'thorough': 4 * 3600}
NSHARDS = 16
SLICE3 = 256          # three-program rows in the quick tier (of 1458)
PY = '/venv/bin/python'
ROOT = os.path.dirname(os.path.dirname(os.path.dirname(os.path.abspath(__file__))))
DRIVER = os.path.join(ROOT, 'vlib', 'c15_driver.py')
LANGS = ['java', 'kotlin', 'groovy', 'scala']
PREFIX = drv.PREFIX

CLASSES = {
    'F0': {'fail': 'early'},
    'F1o': {'fail': 'late', 'cv': 'ok'},
    'F1e': {'fail': 'late', 'cv': 'err'},
    'Co': {'twin': False, 'cv': 'ok'},
    'Ce': {'twin': False, 'cv': 'err'},
    'Too': {'twin': True, 'cv': 'ok', 'iv': 'ok'},
    'Toe': {'twin': True, 'cv': 'ok', 'iv': 'err'},
    'Teo': {'twin': True, 'cv': 'err', 'iv': 'ok'},
    'Tee': {'twin': True, 'cv': 'err', 'iv': 'err'},
}
CLASS_NAMES = list(CLASSES)


def shards(tier):
    return [{'part': k} for k in range(NSHARDS)]


# ---------------------------------------------------------------- plans
def argv_get(argv, flag, default=None):
    for i, a in enumerate(argv):
        if a == flag and i + 1 < len(argv):
            return argv[i + 1]
    return default


def argv_set(argv, flag, value):
    argv = list(argv)
    for i, a in enumerate(argv):
        if a == flag:
            argv[i + 1] = str(value)
            return argv
    return argv + [flag, str(value)]


def normalise(plan):
    """Make the planned outcomes consistent with the options (what the stub
    can actually produce) so that plan and record agree."""
    argv = plan['argv']
    only_cp = '-P' in argv
    t = int(argv_get(argv, '-t', 0))
    for p in plan['programs'].values():
        if plan.get('mode') == 'real':
            for k in ('fail', 'twin', 'skip'):
                p.pop(k, None)
            continue
        f = p.get('fail')
        if f == 'mid' and t == 0:
            f = 'late'
        if f == 'late' and only_cp:
            f = 'early'
        if f:
            p['fail'] = f
            p['twin'] = False
        else:
            p.pop('fail', None)
            if only_cp:
                p['twin'] = False
    return plan


def table_plan(lang, size, rows, workers=None, t=0, seed=0):
    progs = {}
    pid = 0
    for crash, combo in rows:
        for j, cls in enumerate(combo):
            pid += 1
            p = dict(CLASSES[cls])
            p['nerr'] = 1 + pid % 3
            p['noise'] = pid % 2 == 0
            if crash and j == 0:
                p['crash'] = True
            progs[str(pid)] = p
    argv = ['--batch', str(size), '-i', str(pid), '-t', str(t)]
    if workers:
        argv += ['--workers', str(workers)]
    return normalise({'language': lang, 'mode': 'stub', 'seed': seed, 'name': 'sess', 'argv': argv,
                      'programs': progs})


def single_batch_plan(plan, pids):
    """The plan consisting of one batch of the given programs (renumbered)."""
    progs = {}
    for i, pid in enumerate(pids):
        progs[str(i + 1)] = dict(plan['programs'].get(str(pid)) or {})
    argv = argv_set(argv_set(plan['argv'], '-i', len(pids)), '--batch', len(pids))
    out = dict(plan, argv=argv, programs=progs)
    return out


def continuation(plan, last_pid):
    rest = sorted(int(p) for p in plan['programs'] if int(p) > last_pid)
    m = int(argv_get(plan['argv'], '-i', 0))
    remaining = m - last_pid
    if remaining <= 0:
        return None
    progs = {str(p - last_pid): plan['programs'][str(p)] for p in rest}
    return dict(plan, argv=argv_set(plan['argv'], '-i', remaining), programs=progs)


def plan_hash(plan):
    return hashlib.sha1(json.dumps(plan, sort_keys=True).encode()).hexdigest()[:16]


# ---------------------------------------------------------------- running the driver
def _scratch():
    """A fresh scratch directory; on tmpfs when there is one (a session makes
    thousands of small file operations), path restricted to [A-Za-z0-9_/]."""
    for base in ('/dev/shm', None, '/tmp'):
        if base is not None and not (os.path.isdir(base) and os.access(base, os.W_OK)):
            continue
        try:
            d = tempfile.mkdtemp(prefix='c15_', dir=base)
        except OSError:
            continue
        if re.match(r'^[A-Za-z0-9_/]+$', d):
            return d
        os.rmdir(d)
    raise RuntimeError('no usable scratch directory')


def run_driver(plan):
    scratch = _scratch()
    try:
        planf = os.path.join(scratch, 'plan.json')
        resf = os.path.join(scratch, 'result.json')
        with open(planf, 'w') as f:
            json.dump(plan, f)
        env = dict(os.environ)
        pp = [ROOT] + [p for p in env.get('PYTHONPATH', '').split(os.pathsep) if p and p != ROOT]
        env['PYTHONPATH'] = os.pathsep.join(pp)
        env['VERIF_REPO'] = os.environ.get('VERIF_REPO', '/repo')
        env['PYTHONHASHSEED'] = '0'
        env['PYTHONDONTWRITEBYTECODE'] = '1'
        env['PYTHONIOENCODING'] = 'utf-8'
        try:
            p = subprocess.run([PY, DRIVER, planf, resf], env=env, cwd=scratch, timeout=900,
                               stdout=subprocess.DEVNULL, stderr=subprocess.PIPE)
        except subprocess.TimeoutExpired:
            raise RuntimeError('C15 driver did not finish within 900 s (harness limit) for plan %s'
                               % json.dumps(plan)[:1500])
        if not os.path.exists(resf):
            tail = ''
            try:
                with open(os.path.join(scratch, 'stdout.txt'), errors='replace') as f:
                    tail = f.read()[-1500:]
            except OSError:
                pass
            raise RuntimeError('C15 driver exited %s without a result: %s %s'
                               % (p.returncode, (p.stderr or b'').decode(errors='replace')[-1500:], tail))
        with open(resf) as f:
            res = json.load(f)
        if res.get('status') in ('driver-error', 'import-failed'):
            raise RuntimeError('C15 driver: %s %s' % (res['status'], json.dumps(res.get('exception'))[:2500]))
        return res
    finally:
        shutil.rmtree(scratch, ignore_errors=True)


# ---------------------------------------------------------------- reference model
def outcome_label(rec, plan, pid):
    pp = drv.prog_plan(plan, pid)
    if rec['failed']:
        wrote = 'w' if pp.get('fail') in ('late',) else ''
        return 'F' + wrote + (pp['cv'][0] if wrote else '')
    progs = rec.get('programs') or {}
    twin = any(v is False for v in progs.values())
    return ('T' if twin else 'C') + pp['cv'][0] + (pp['iv'][0] if twin else '')


def model_batch(plan, ent):
    """fault(pid) <=> failed_by_tool or crash or (expected_pass and error for
    its file) or (expected_fail and no error for its file)."""
    comp = ent.get('compile') or {}
    crash = comp.get('crash')
    errs = {f['path']: f['errors'] for f in comp.get('files', [])}
    out = {}
    for spid, rec in ent['gen'].items():
        pid = int(spid)
        reasons = []
        want_tokens = []
        if rec['failed']:
            reasons.append('tool-failure')
        if crash:
            reasons.append('crash')
        if not rec['failed'] and not crash:
            for path, expect in (rec.get('programs') or {}).items():
                e = errs.get(path) or []
                if expect and e:
                    reasons.append('rejected-well-typed')
                    want_tokens = list(e)
                if not expect and not e:
                    reasons.append('accepted-ill-typed')
        out[pid] = {'reasons': reasons, 'tokens': want_tokens, 'rec': rec, 'crash': crash}
    return out


FOREIGN = re.compile(r'C15(?:E|INJ|TOOL)_p(\d+)')


def message_problem(pid, m, msg):
    """None or (reason, problem) when the message does not carry the text the
    property asks for."""
    msg = msg if isinstance(msg, str) else ''
    reasons = m['reasons']
    rec = m['rec']
    ok_tool = isinstance(rec.get('error'), str) and rec['error'] in msg
    if 'crash' in reasons:
        if m['crash'] in msg or ('tool-failure' in reasons and ok_tool):
            return None
        return ('crash', 'crash-output-missing')
    if 'tool-failure' in reasons:
        return None if ok_tool else ('tool-failure', 'tool-error-missing')
    foreign = [x for x in FOREIGN.findall(msg) if int(x) != pid]
    rej = 'rejected-well-typed' in reasons
    acc = 'accepted-ill-typed' in reasons
    rej_ok = rej and all(t in msg for t in m['tokens'])
    inj = rec.get('error')
    acc_prefix = msg.startswith(PREFIX)
    acc_inj = isinstance(inj, str) and inj in msg
    if rej and acc:
        if rej_ok or (acc_prefix and acc_inj):
            return ('double-fault', 'text-of-another-program') if foreign else None
        return ('double-fault', 'neither-message')
    if rej:
        if not rej_ok:
            return ('rejected-well-typed', 'compiler-message-missing')
        if acc_prefix:
            return ('rejected-well-typed', 'has-SHOULD-NOT-BE-COMPILED-prefix')
    if acc:
        if not acc_prefix:
            return ('accepted-ill-typed', 'SHOULD-NOT-BE-COMPILED-prefix-missing')
        if not acc_inj:
            return ('accepted-ill-typed', 'injected-error-missing')
    if foreign:
        return (reasons[0], 'text-of-another-program')
    return None


_TMPNAME = re.compile(r'tmp[a-z0-9_]{8}(?![a-z0-9_])')


def scrub(obj, scratch):
    """Random scratch / batch directory names out of details and samples
    (evidence and replay files are the same from run to run)."""
    txt = json.dumps(obj, default=str)
    if scratch:
        txt = txt.replace(scratch, '<scratch>')
    txt = _TMPNAME.sub('tmpXXXXXXXX', txt)
    return json.loads(txt)


class Sink:
    """Collector stand-in used when a minimal plan is re-executed."""
    def __init__(self):
        self.sigs = {}

    def violation(self, signature, detail, case, size=0):
        self.sigs.setdefault(signature, detail)

    def case(self, *a, **k):
        pass

    def feature(self, *a, **k):
        pass

    def add_extra(self, *a, **k):
        pass

    def set_extra(self, *a, **k):
        pass

    def max_extra(self, *a, **k):
        pass


_best = {}


def report(col, sig, detail, plan, pids=None, minimise=True):
    """Record a violation; for a batch-level one try the one-batch plan first
    (fresh session) so that the replay file is minimal."""
    nprog = len(plan['programs'])
    if minimise and pids and len(pids) < nprog and len(pids) < _best.get(sig, 1 << 30) \
            and not isinstance(col, Sink):
        mini = single_batch_plan(plan, pids)
        sink = Sink()
        try:
            execute(mini, sink, tag='minimise', minimise=False)
        except RuntimeError:
            sink.sigs = {}
        if sig in sink.sigs:
            _best[sig] = len(pids)
            d = dict(sink.sigs[sig])
            d['found_in'] = 'batch %s of a %d-program session; reproduced alone in a fresh session' % (pids, nprog)
            col.violation(sig, d, mini, size=len(pids))
            return
    col.violation(sig, detail, plan, size=nprog)


def classify_exception(exc, ent, model, plan, testdir):
    """Signature for an exception that escaped check_oracle for one batch."""
    typ = exc.get('type', '?')
    msg = exc.get('msg', '')
    if typ == 'FileExistsError':
        doubles = [pid for pid, m in model.items()
                   if 'rejected-well-typed' in m['reasons'] and 'accepted-ill-typed' in m['reasons']]
        for pid in doubles:
            if msg.rstrip("'\"").endswith(os.sep + str(pid)):
                return 'C15/double-fault/copytree-FileExistsError', pid
    safe = re.sub(r'[^A-Za-z0-9_]', '_', typ)
    return 'C15/check-oracle-raises/%s' % safe, None


def judge(plan, res, col, tag='', minimise=True):
    """Compare one executed session with the reference model.  Returns the
    pid after which a continuation has to start (or None)."""
    lang = plan['language']
    mode = plan.get('mode', 'stub')
    workers = argv_get(plan['argv'], '--workers')
    pool = workers is not None
    m_iter = int(argv_get(plan['argv'], '-i', 0))
    n_batch = int(argv_get(plan['argv'], '--batch', 1))
    reg = res.get('registry', {})
    final = res.get('final', {})
    tree = set(final.get('tree', []))
    completed = res.get('status') == 'completed' and not res.get('loop_budget_hit')
    testdir = (res.get('cli') or {}).get('test_directory', '')

    scratch = os.path.dirname(os.path.dirname(testdir)) if testdir else ''

    def V(sig, detail, pids=None):
        d = {'language': lang, 'mode': mode, 'workers': workers}
        d.update(detail)
        report(col, sig, scrub(d, scratch), plan, pids, minimise)

    ents = [e for e in reg.values() if e['gen']]
    ents.sort(key=lambda e: min(int(p) for p in e['gen']))
    seen_pids = {}
    abort_after = None
    models = {}
    reported_all = {}
    exc_batches = []
    any_crash = False
    for bi, ent in enumerate(ents):
        pids = sorted(int(p) for p in ent['gen'])
        for pid in pids:
            if pid in seen_pids:
                V('C15/session/program-id-used-twice', {'pid': pid})
            seen_pids[pid] = bi
        for spid, rec in ent['gen'].items():
            if rec.get('shape') != 'ProgramRes' or rec.get('failed') is None:
                raise RuntimeError('gen_program returned an unexpected shape: %r' % rec)
            if mode == 'stub' and str(spid) in plan['programs']:
                pp = drv.prog_plan(plan, int(spid))
                twin = any(v is False for v in (rec.get('programs') or {}).values())
                if bool(pp['fail']) != rec['failed'] or (not rec['failed'] and bool(pp['twin']) != twin):
                    raise RuntimeError('stub produced something else than planned: %r vs %r' % (pp, rec))
        model = model_batch(plan, ent)
        models.update(model)
        # every source file of the batch declares the package of the directory it was written to (otherwise a batch of
        # valid programs is rejected with duplicate classes although each compiles alone)
        for f in (ent.get('compile') or {}).get('files', []):
            if f.get('package') is not None and f.get('pid') is not None and f['package'] != 'src.' + str(f.get('directory')):
                V('C15/layout/package-declaration-differs-from-directory',
                  {'declared': f['package'], 'directory': f.get('directory'), 'role': f.get('role')}, [f['pid']])
        labels = [outcome_label(ent['gen'][str(p)], plan, p) for p in pids]
        crash = bool((ent.get('compile') or {}).get('crash'))
        any_crash = any_crash or crash
        want_crash = any(drv.prog_plan(plan, p)['crash'] for p in pids)
        if ent.get('compile') is not None and crash != want_crash:
            raise RuntimeError('stand-in rendered crash=%s, planned %s' % (crash, want_crash))
        if len(pids) > n_batch:
            V('C15/session/batch-larger-than-batch-option', {'batch': pids, '--batch': n_batch})
        checked = ent.get('result') is not None or ent.get('exc') is not None
        if not checked:
            if completed:
                V('C15/session/batch-never-checked', {'batch': pids, 'compiled': ent.get('compile') is not None},
                  pids)
            continue
        col.case(key=['batch', lang, mode, 'pool' if pool else 'seq', labels, crash],
                 nontrivial=len(set(labels)) >= 2,
                 sample=scrub({'language': lang, 'mode': mode, 'workers': workers, 'batch': pids,
                               'outcomes': labels, 'crash': crash,
                               'model_faults': {str(p): model[p]['reasons'] for p in pids if model[p]['reasons']},
                               'reported': (ent.get('result') or {}).get('reported'),
                               'exception': (ent.get('exc') or {}).get('type')}, scratch))
        col.feature('batches/size-%d' % len(pids))
        col.feature('batches/%s' % ('pool' if pool else 'sequential'))
        if crash:
            col.feature('batches/compiler-crash')
        for p in pids:
            r = model[p]['reasons']
            col.feature('program/' + ('+'.join(r) if r else 'no-fault'))
            col.feature('layout/' + outcome_label(ent['gen'][str(p)], plan, p))
        if ent.get('exc') is not None:
            exc = ent['exc']
            sig, pid = classify_exception(exc, ent, model, plan, testdir)
            V(sig, {'batch': pids, 'outcomes': labels, 'exception': exc.get('type'), 'message': exc.get('msg'),
                    'program': pid,
                    'effect': ('the exception is swallowed by check_oracle_mul: the whole batch is counted as passed'
                               if pool else 'the exception escapes main(): the session is aborted'),
                    'expected': {str(p): model[p]['reasons'] for p in pids if model[p]['reasons']},
                    'traceback': exc.get('tb', '')[-600:]}, pids)
            exc_batches.append(bi)
            abort_after = max(pids)
            continue
        reported = ent['result']['reported']
        if '_unexpected_shape' in reported:
            V('C15/decision/check-oracle-returns-unexpected-shape', {'returned': reported})
            continue
        for spid, msg in reported.items():
            reported_all[spid] = msg
            if int(spid) not in model:
                V('C15/decision/reported-program-not-in-batch', {'batch': pids, 'pid': spid}, pids)
        for pid in pids:
            mm = model[pid]
            rs = mm['reasons']
            isrep = str(pid) in reported
            det = {'batch': pids, 'outcomes': labels, 'crash': crash, 'pid': pid, 'model_reasons': rs,
                   'reported': reported}
            if rs and not isrep:
                if 'crash' in rs and 'tool-failure' in rs:
                    sig = 'C15/crash-branch/tool-failed-program-not-reported'
                elif 'crash' in rs:
                    sig = 'C15/crash-branch/program-not-reported'
                elif 'tool-failure' in rs:
                    sig = 'C15/decision/tool-failed-program-not-reported'
                elif 'accepted-ill-typed' in rs and 'rejected-well-typed' in rs:
                    sig = 'C15/decision/double-fault-program-not-reported'
                elif 'accepted-ill-typed' in rs:
                    sig = 'C15/decision/accepted-ill-typed-program-not-reported'
                else:
                    sig = 'C15/decision/rejected-well-typed-program-not-reported'
                V(sig, det, pids)
                continue
            if not rs and isrep:
                msg = reported[str(pid)] or ''
                kind = 'as-should-not-be-compiled' if str(msg).startswith(PREFIX) else 'with-other-message'
                V('C15/decision/non-faulty-program-reported/' + kind, dict(det, message=msg), pids)
                continue
            if not rs:
                continue
            prob = message_problem(pid, mm, reported[str(pid)])
            if prob:
                V('C15/message/%s/%s' % prob, dict(det, message=reported[str(pid)],
                                                   wanted_tokens=mm['tokens'], crash_text=mm['crash'],
                                                   gen_time_error=mm['rec'].get('error')), pids)
            if not mm['rec']['failed']:
                ext = drv.EXT[lang]
                has_dir = ('%d/' % pid) in tree
                srcs = [t for t in tree if t.startswith('%d/' % pid) and t.endswith(ext)]
                if not has_dir:
                    V('C15/saved/%s/test-case-directory-missing' % rs[0], dict(det, tree=sorted(tree)[:40]), pids)
                elif not srcs:
                    V('C15/saved/%s/test-case-without-source' % rs[0], dict(det, tree=sorted(tree)[:40]), pids)

    # ---- session level
    nbatches = len(ents)
    col.case(key=['session', plan_hash(plan)], nontrivial=nbatches >= 3,
             sample={'language': lang, 'mode': mode, 'argv': plan['argv'], 'batches': nbatches,
                     'status': res.get('status'), 'totals': final.get('totals'),
                     'faults': sorted(final.get('faults', {}), key=int)[:20]})
    col.feature('sessions/%s' % ('pool' if pool else 'sequential'))
    col.feature('sessions/lang-%s' % lang)
    col.feature('sessions/%s-generator' % mode)
    col.feature('sessions/origin-%s' % (tag or 'other'))
    if any_crash:
        col.feature('sessions/with-compiler-crash')
    if nbatches >= 3:
        col.feature('sessions/3-or-more-batches')
    if '-P' in plan['argv']:
        col.feature('sessions/only-correctness-preserving')
    if n_batch > m_iter:
        col.feature('sessions/batch-option-exceeds-iterations')

    if res.get('loop_budget_hit'):
        V('C15/session/main-loop-does-not-finish', {'loop_calls': res.get('loop_calls'), '-i': m_iter})
    if res.get('status') == 'exception':
        col.feature('sessions/aborted-by-exception')
        ex = res.get('exception') or {}
        if not exc_batches:
            safe = re.sub(r'[^A-Za-z0-9_]', '_', ex.get('type', '?'))
            V('C15/session/aborts/%s' % safe, {'message': ex.get('msg'), 'traceback': (ex.get('tb') or '')[-800:]})
            abort_after = max(seen_pids) if seen_pids else m_iter
    if completed:
        got = sorted(seen_pids)
        if got != list(range(1, m_iter + 1)):
            V('C15/session/programs-processed-differ-from-iterations',
              {'-i': m_iter, '--batch': n_batch, 'processed': len(got), 'pids': got[:50],
               'batch_sizes': [len(e['gen']) for e in ents]})

    # counters after every update
    sizes = [len(e['gen']) for e in ents]
    updates = res.get('updates', [])
    feasible = [{0}]
    for s in sizes:
        nxt = [set() for _ in range(len(feasible) + 1)]
        for i, sums in enumerate(feasible):
            nxt[i] |= sums
            nxt[i + 1] |= {x + s for x in sums}
        feasible = nxt
    cum_keys = set()
    cum_n = 0
    for i, u in enumerate(updates, 1):
        if 'exception' in u:
            V('C15/counters/update-raises', {'update': i, 'exception': u['exception']})
            break
        rk = u.get('res_keys') or []
        cum_keys |= set(rk)
        cum_n += len(rk)
        tot = u['totals']
        total = tot['passed'] + tot['failed']
        if pool:
            ok = i < len(feasible) and total in feasible[i]
            processed = sorted(feasible[i]) if i < len(feasible) else None
        else:
            processed = sum(sizes[:i])
            ok = total == processed
        det = {'update': i, 'totals': tot, 'processed': processed, 'reported_in_update': rk, 'batch_sizes': sizes}
        if not ok:
            V('C15/counters/passed-plus-failed-differs-from-processed', det)
        if tot['failed'] != cum_n or tot['passed'] < 0:
            V('C15/counters/failed-differs-from-number-reported', dict(det, reported_so_far=cum_n))
        if set(u['fault_keys']) != cum_keys:
            V('C15/faults/in-memory-faults-differ-from-reported', dict(det, fault_keys=u['fault_keys'],
                                                                       reported_so_far=sorted(cum_keys)))
        disk = u.get('disk') or {}
        if disk.get('faults') is None or set(disk['faults']) != cum_keys:
            V('C15/faults-file/keys-differ-from-reported', dict(det, file=disk.get('faults'),
                                                                reported_so_far=sorted(cum_keys)))
        if (disk.get('stats') or {}).get('totals') != tot:
            V('C15/stats-file/totals-differ', dict(det, file=disk.get('stats')))
    checked_batches = [e for e in ents if e.get('result') is not None or (pool and e.get('exc') is not None)]
    if completed:
        if len(updates) != len(checked_batches):
            V('C15/counters/number-of-updates-differs-from-batches', {'updates': len(updates),
                                                                      'batches': len(checked_batches)})
        fin_tot = final.get('totals') or {}
        if fin_tot.get('passed', 0) + fin_tot.get('failed', 0) != len(seen_pids):
            V('C15/counters/final-passed-plus-failed-differs-from-processed',
              {'totals': fin_tot, 'processed': len(seen_pids)})
    if not any('exception' in u for u in updates):
        disk = (final.get('disk') or {}).get('faults')
        if updates and (disk is None or set(disk) != set(reported_all)):
            V('C15/faults-file/keys-differ-from-reported', {'file': sorted(disk or {}),
                                                            'reported': sorted(reported_all)})
        elif updates:
            for k, msg in reported_all.items():
                if disk.get(k) != msg:
                    V('C15/faults-file/message-differs-from-reported', {'pid': k, 'file': disk.get(k),
                                                                        'reported': msg})
                    break
    # files left behind, judged at the end of a finished session
    if completed:
        skip = set()
        for bi in exc_batches:
            skip |= {int(p) for p in ents[bi]['gen']}
        if 'tmp/' in tree:
            V('C15/cleanup/tmp-directory-left', {'tree': sorted(tree)[:40]})
        for t in sorted(tree):
            mt = re.match(r'^(\d+)/$', t)
            if mt:
                pid = int(mt.group(1))
                if pid in models and not models[pid]['reasons'] and pid not in skip:
                    V('C15/cleanup/directory-for-non-faulty-program', {'pid': pid, 'tree': sorted(tree)[:40]},
                      [p for p in seen_pids if seen_pids[p] == seen_pids[pid]])
                    break
        exc_bases = {ents[bi]['gen'][next(iter(ents[bi]['gen']))].get('tmpbase') for bi in exc_batches}
        for lf in final.get('leftover_batch_files', []):
            if lf.get('tmpbase') in exc_bases:
                continue
            pid = lf.get('pid')
            if pid in models and not models[pid]['reasons']:
                V('C15/cleanup/batch-files-of-non-faulty-program-left', {'file': lf},
                  [p for p in seen_pids if seen_pids[p] == seen_pids[pid]])
                break
    if res.get('status') == 'exception':
        return abort_after
    return None


def execute(plan, col, tag='', minimise=True):
    """Run a plan; when the tool aborts the session, go on with the remaining
    programs in a fresh session.  Returns the number of sessions used."""
    n = 0
    guard = len(plan['programs']) + 2
    while plan is not None and n < guard:
        res = run_driver(plan)
        n += 1
        after = judge(plan, res, col, tag=tag if n == 1 else tag + '-continued', minimise=minimise)
        if after is None:
            break
        if not isinstance(col, Sink):
            col.feature('sessions/continued-after-abort')
        plan = continuation(plan, after)
    return n


# ---------------------------------------------------------------- the decision table
def table_rows(tier, seed):
    """[(index, size, crash, combo)] — the full table for sizes 1..2, size 3
    full (thorough) or a seeded slice (quick)."""
    rows = []
    idx = 0
    for size in (1, 2, 3):
        block = []
        for crash in (False, True):
            for combo in itertools.product(CLASS_NAMES, repeat=size):
                block.append((size, crash, combo))
        if size == 3 and tier != 'thorough':
            rnd = random.Random(seed * 7919 + 15)
            pick = sorted(rnd.sample(range(len(block)), SLICE3))
            block = [block[i] for i in pick]
        for size_, crash, combo in block:
            rows.append((idx, size_, crash, combo))
            idx += 1
    return rows


def run_table(spec, col):
    k = spec['part']
    tier = col.tier
    rows = [r for r in table_rows(tier, col.seed) if r[0] % NSHARDS == k]
    groups = {}
    for idx, size, crash, combo in rows:
        j = idx // NSHARDS
        if tier == 'thorough' or size < 3:
            langs = LANGS
        else:
            langs = [LANGS[k % 4]]
        for lang in langs:
            groups.setdefault((lang, size, None), []).append((crash, combo))
        # the same rows once more through the worker pool (one language per row / per shard)
        if tier == 'thorough':
            groups.setdefault((LANGS[j % 4], size, 2 + k % 3), []).append((crash, combo))
        elif size < 3 or j % 3 == 0:
            groups.setdefault((LANGS[(k + 1) % 4], size, 2 + k % 3), []).append((crash, combo))
    for (lang, size, workers), rws in sorted(groups.items(), key=lambda kv: (kv[0][0], kv[0][1], kv[0][2] or 0)):
        for c in range(0, len(rws), 40):
            plan = table_plan(lang, size, rws[c:c + 40], workers=workers, t=1 if size == 2 else 0)
            execute(plan, col, tag='table-pool' if workers else 'table')
            col.add_extra('table_rows_executed', len(rws[c:c + 40]))


# ---------------------------------------------------------------- random sessions
def session_strategy():
    from hypothesis import strategies as st
    fails = [None] * 17 + ['early', 'mid', 'late']

    @st.composite
    def sessions(draw):
        lang = draw(st.sampled_from(LANGS))
        mode = draw(st.sampled_from(['stub'] * 9 + ['real']))
        workers = draw(st.sampled_from([None] * 6 + [2, 3, 4]))
        n = draw(st.integers(1, 4))
        nb = draw(st.integers(1, 6))
        last = draw(st.integers(1, n))
        t = draw(st.integers(0, 2)) if mode == 'stub' else draw(st.integers(0, 1))
        only_cp = draw(st.sampled_from([False] * 11 + [True]))
        progs = {}
        pid = 0
        for b in range(nb):
            size = n if b < nb - 1 else last
            crash = draw(st.sampled_from([False] * 7 + [True]))
            at = draw(st.integers(0, size - 1))
            for j in range(size):
                pid += 1
                p = {'fail': draw(st.sampled_from(fails)), 'twin': draw(st.booleans()),
                     'cv': draw(st.sampled_from(['ok', 'ok', 'err'])),
                     'iv': draw(st.sampled_from(['err', 'err', 'ok'])),
                     'nerr': draw(st.integers(1, 3)), 'noise': draw(st.booleans()), 'skip': draw(st.booleans())}
                if crash and j == at:
                    p['crash'] = True
                progs[str(pid)] = p
        argv = ['--batch', str(n), '-i', str(pid), '-t', str(t)]
        if workers:
            argv += ['--workers', str(workers)]
        if only_cp:
            argv += ['-P']
        if mode == 'real':
            argv += ['--max-depth', '2']
        return normalise({'language': lang, 'mode': mode, 'seed': draw(st.integers(0, 10 ** 6)), 'name': 'sess',
                          'reverse_output': draw(st.booleans()), 'argv': argv, 'programs': progs})
    return sessions()


def run_random(spec, col):
    from vlib import hyp
    n = (64 if col.tier == 'quick' else 1504) // NSHARDS

    def one(plan):
        execute(plan, col, tag='random')
        col.add_extra('random_sessions', 1)
    hyp.explore(session_strategy(), one, n, col.shard_seed('sessions'))


# ---------------------------------------------------------------- javac format self-check
def validate_java_format(col):
    """The Java renderer against the installed javac: same line shapes for the
    same scenario (two errors in one file, an unchecked note for another)."""
    javac = shutil.which('javac')
    if not javac:
        col.set_extra('javac_format_validation', 'javac unavailable')
        return
    d = _scratch()
    try:
        a = os.path.join(d, 'src', 'aa')
        b = os.path.join(d, 'src', 'bb')
        os.makedirs(a)
        os.makedirs(b)
        with open(os.path.join(a, 'Main.java'), 'w') as f:
            f.write('package src.aa;\nclass Main {\n  int f() { int x = "a"; return x; }\n'
                    '  String g() { return 1; }\n}\n')
        with open(os.path.join(b, 'Main.java'), 'w') as f:
            f.write('package src.bb;\nimport java.util.*;\nclass Main { List f() { List l = new ArrayList(); '
                    'l.add(1); return l; } }\n')
        try:
            p = subprocess.run('javac -nowarn -d %s %s' % (os.path.join(d, 'out'), os.path.join(d, 'src', '*', '*.java')),
                               shell=True, stdout=subprocess.PIPE, stderr=subprocess.STDOUT, timeout=120)
        except Exception as e:
            col.set_extra('javac_format_validation', 'javac not runnable: %r' % e)
            return
        real = p.stdout.decode(errors='replace')
        mine = drv.render_java([(os.path.join(a, 'Main.java'), ['T0', 'T1'], False),
                                (os.path.join(b, 'Main.java'), [], True)], None)

        def shapes(txt):
            out = []
            for line in txt.splitlines():
                if re.match(r'^[A-Za-z0-9_/]+\.java:\d+: error: .+$', line):
                    out.append('E')
                elif re.match(r'^Note: ', line):
                    out.append('N')
                elif re.match(r'^\d+ errors?$', line):
                    out.append('T')
                elif re.match(r'^\s*\^\s*$', line):
                    out.append('^')
                else:
                    out.append('s')
            return out
        if shapes(real) != shapes(mine):
            raise RuntimeError('Java renderer does not match javac output shape (harness):\n%s\nvs\n%s' % (real, mine))
        col.set_extra('javac_format_validation', 'line shapes equal to %s' % javac)
    finally:
        shutil.rmtree(d, ignore_errors=True)


# ---------------------------------------------------------------- entry points
def run_shard(spec, col):
    if spec['part'] == 0:
        validate_java_format(col)
    run_table(spec, col)
    run_random(spec, col)


def replay(case, col):
    execute(case, col, tag='replay', minimise=False)


def finish(tier, cov):
    return {'exhaustive': tier == 'thorough',
            'exhaustive_note': ('decision table: all batches of 1..%s programs over 9 layouts x crash, 4 languages '
                                'sequential + once in pool mode' % ('3' if tier == 'thorough' else
                                                                    '2 (and %d of the 1458 batches of 3)' % SLICE3))}
