"""C04 — type overwriting injects exactly one real type error (the fail oracle).

Programs (generated, optionally erased first) in 4 languages are mutated by
the real TypeOverwriting on pickled copies under several RNG seeds each, so
that many (candidate node, replacement type) pairs are exercised.
Oracle when the mutation reports an injected error:
 (1) the program differs from its input in exactly one declared type slot;
 (2) the new type is unrelated to the old one: not a subtype either way in the
     reference relation RM and not assignable either way under the language's
     assignment conversions (Java/Groovy: primitive widening, boxing, unboxing);
 (3) the message names the old type, the new type and the mutated node;
 (4) the reference checker RC rejects the mutated program (it accepted the input);
 (5) the translation changed and, for Java, javac rejects the file.
When nothing is reported as injected, the translation is unchanged."""
import copy
import hashlib
import os
import shutil
import tempfile

from vlib import boot, jd, mutdiff, pg, progcheck, rc, rm

LEVEL = 'exploration'
RULE = ('case = (program, erased or not, RNG seed of the mutation): the real TypeOverwriting applied to a pickled copy; several '
        're-rolls per program cover different candidate nodes and replacement types; non-trivial = the mutation reported an '
        'injected error; distinct = distinct (program text, mutated slot, new type)')
ASSUMPTIONS = [
    'RM / RC are the trusted judges of "unrelated" and "a correct type checker must reject"; for Java the installed javac is an additional judge',
    'a type variable is compared through its bound, as the mutation documents',
    'Java/Groovy assignment conversions follow JLS 5.2 (widening primitive, boxing, unboxing); Kotlin and Scala have none',
]
MIN_NONTRIVIAL = {'quick': 150, 'thorough': 4000}
NSHARDS = 16
HARD_TIMEOUT = {'quick': 1800, 'thorough': 5 * 3600}
RANK = {'ByteType': 1, 'ShortType': 2, 'CharType': 2, 'IntegerType': 3, 'LongType': 4, 'FloatType': 5, 'DoubleType': 6}


def shards(tier):
    return [{'k': k, 'lang': boot.LANGS[k % 4]} for k in range(NSHARDS)]


def conv_assignable(s_ir, t_ir, s, t, R, lang):
    """assignment compatibility of the target language beyond subtyping."""
    if lang not in ('java', 'groovy'):
        return False
    if s is None or t is None or s[0] != 'b' or t[0] != 'b':
        return False
    rs, rt = RANK.get(s[1]), RANK.get(t[1])
    if rs is None or rt is None:
        return False
    t_prim = bool(getattr(t_ir, 'primitive', False))
    if lang == 'java':
        # unboxing (if needed) then widening primitive conversion; target must be primitive
        if not t_prim:
            return False
        if s[1] == 'CharType':
            return t[1] in ('IntegerType', 'LongType', 'FloatType', 'DoubleType')
        if t[1] == 'CharType':
            return False
        return rs <= rt
    # groovy static type checking additionally widens to boxed numeric targets
    if s[1] == 'CharType' or t[1] == 'CharType':
        return False
    return rs <= rt


def relation(R, o, n, old_ir, new_ir, lang):
    """How the replacement relates to the replaced type.  A type variable with a declared (non-top) bound is
    judged through its bound, as the property says; an unbounded one as itself."""
    ob, nb = o, n
    if o is not None and o[0] == 'v':
        b = bound_of(o)
        ob = o if R.is_top(b) else b
    if n is not None and n[0] == 'v':
        b = bound_of(n)
        nb = n if R.is_top(b) else b
    if ob == nb:
        return 'same-type'
    if R.is_top(ob):
        return 'old-is-top-type'
    if R.sub(nb, ob):
        return 'new-is-subtype-of-old'
    if R.sub(ob, nb):
        return 'new-is-top-type' if R.is_top(nb) else 'new-is-supertype-of-old'
    if conv_assignable(new_ir, old_ir, nb, ob, R, lang):
        return 'new-assignable-to-old-by-conversion'
    if conv_assignable(old_ir, new_ir, ob, nb, R, lang):
        return 'old-assignable-to-new-by-conversion'
    numeric = ('ByteType', 'ShortType', 'CharType', 'IntegerType', 'LongType', 'FloatType', 'DoubleType', 'NumberType',
               'BigDecimalType', 'BigIntegerType')
    if lang in ('java', 'groovy') and ob[0] == 'b' and nb[0] == 'b' and ob[1] in numeric and nb[1] in numeric:
        # Java / Groovy convert between numeric types in many contexts that are not plain assignments: constant
        # narrowing (JLS 5.2), binary numeric promotion of `c ? f() : -80` followed by boxing, arithmetic results ...
        return 'numeric-constant-narrowing'
    return 'unrelated'


def bound_of(t):
    n = 0
    while t is not None and t[0] == 'v' and n < 10:
        t = t[2] if t[2] is not None else rm.TOP
        n += 1
    return t


class Ctx:
    def __init__(self, col, lang):
        self.col, self.lang = col, lang
        self.java = []     # (key, text, detail) of Java mutants to be compiled


def _unconstrained_call_type_argument(prog, call, idx):
    """The idx-th type parameter of the called generic function occurs neither in the type of a parameter for which this
    call supplies an argument nor in the result type: nothing in the program constrains the explicit type argument."""
    from src.ir import ast
    from vlib import walk
    decls = [o for o, _ in walk.reachable(prog) if isinstance(o, ast.FunctionDeclaration) and o.name == call.func and
             len(o.type_parameters) > idx]
    if not decls:
        return False
    for f in decls:
        name = f.type_parameters[idx].name
        named = {a.name for a in call.args if getattr(a, 'name', None)}
        npos = len([a for a in call.args if not getattr(a, 'name', None)])
        supplied = []
        i = 0
        for p in f.params:
            if p.name in named:
                supplied.append(p)
            elif i < npos or p.vararg:
                supplied.append(p)
                i += 1
        mentions = [p for p in supplied if name in rm.free_vars(mutdiff.term_of(p.get_type()) or ('c', '?'))]
        rt = mutdiff.term_of(f.get_type())
        if mentions or (rt is not None and name in rm.free_vars(rt)):
            return False
    return True


def judge_mutation(ctx, case, base_prog, base_text, base_rc_clean, stage, mseed):
    col, lang = ctx.col, ctx.lang
    prog = pg.clone(base_prog)
    before = copy.deepcopy(prog)
    utils = boot._state['utils']
    import random
    utils.random.r = random.Random(mseed)
    try:
        t = pg.overwrite(prog, lang)
        text = pg.translate(prog, lang)
    except Exception as e:
        col.feature('pipeline_exception(C18 territory):' + type(e).__name__)
        return
    viols = []
    other, slots = mutdiff.diff(before, prog)
    key = dict(case.key(), stage=stage, mseed=mseed)
    if not t.is_transformed:
        col.feature('mutation_not_applied')
        if text != base_text:
            viols.append(('C04/not-transformed-but-text-changed', {'stage': stage}))
        if t.error_injected is not None:
            viols.append(('C04/not-transformed-but-error-message-set', {'msg': str(t.error_injected)[:200]}))
        if other or slots:
            viols.append(('C04/not-transformed-but-program-changed',
                          {'diff': [list(map(str, d)) for d in other[:3]], 'slots': [mutdiff.show_slot(s) for s in slots[:3]]}))
        col.case(key=(progcheck.text_key(base_text), stage, mseed), nontrivial=False)
        for sig, d in viols:
            col.violation(sig, dict(d, lang=lang), key, size=100000 + len(base_text))
        return
    # (1) exactly one declared type changed
    kind = None
    old_ir = new_ir = None
    if other:
        viols.append(('C04/changes-outside-declared-types/' + str(other[0][0]).rsplit('.', 1)[-1][:30],
                      {'diff': [list(map(str, d)) for d in other[:4]]}))
    owners = {}
    for s in slots:
        owners.setdefault(s['owner_id'], []).append(s)
    if len(owners) != 1:
        viols.append(('C04/not-exactly-one-node-changed/%d' % len(owners),
                      {'slots': [mutdiff.show_slot(s) for s in slots[:6]]}))
    if owners:
        ss = list(owners.values())[0]
        attrs = sorted(s['attr'] for s in ss)
        owner = ss[0]['owner']
        if owner == 'VariableDeclaration' and attrs in (['inferred_type', 'var_type'],):
            kind = 'variable'
            s = [x for x in ss if x['attr'] == 'var_type'][0]
            old_ir, new_ir = [x for x in ss if x['attr'] == 'inferred_type'][0]['old_obj'], s['new_obj']
        elif owner == 'FunctionDeclaration' and attrs in (['inferred_type', 'ret_type'],):
            kind = 'return'
            s = [x for x in ss if x['attr'] == 'ret_type'][0]
            old_ir, new_ir = [x for x in ss if x['attr'] == 'inferred_type'][0]['old_obj'], s['new_obj']
        elif owner == 'New' and attrs == ['class_type']:
            kind = 'constructor-type-argument'
            o, n = ss[0]['old_obj'], ss[0]['new_obj']
            oa, na = list(getattr(o, 'type_args', [])), list(getattr(n, 'type_args', []))
            diffs = [i for i in range(min(len(oa), len(na))) if mutdiff.term_of(oa[i]) != mutdiff.term_of(na[i])]
            if getattr(o, 'name', None) != getattr(n, 'name', None) or len(oa) != len(na) or len(diffs) != 1:
                viols.append(('C04/constructor-type-changed-in-more-than-one-argument', {'slot': mutdiff.show_slot(ss[0])}))
            else:
                old_ir, new_ir = oa[diffs[0]], na[diffs[0]]
        elif owner == 'FunctionCall' and (attrs == ['type_args'] or (
                attrs == ['_can_infer_type_args', 'type_args'] and
                [x for x in ss if x['attr'] == '_can_infer_type_args'][0]['new'] is False)):
            # (the inferable flag may be reset so that the overwritten argument is printed)
            kind = 'call-type-argument'
            ta = [x for x in ss if x['attr'] == 'type_args'][0]
            oa, na = ta['old_obj'], ta['new_obj']
            diffs = [i for i in range(min(len(oa), len(na))) if mutdiff.term_of(oa[i]) != mutdiff.term_of(na[i])]
            if len(oa) != len(na) or len(diffs) != 1:
                viols.append(('C04/call-type-arguments-changed-in-more-than-one', {'slot': mutdiff.show_slot(ss[0])}))
            else:
                old_ir, new_ir = oa[diffs[0]], na[diffs[0]]
                if _unconstrained_call_type_argument(prog, ta['owner_obj'], diffs[0]):
                    kind = 'call-type-argument+unconstrained'
        else:
            viols.append(('C04/unexpected-slot-set/%s/%s' % (owner, '+'.join(attrs)),
                          {'slots': [mutdiff.show_slot(s) for s in ss]}))
    col.feature('mutated_' + str(kind))
    # (2) unrelated
    # an erased program is judged the way a compiler sees it: removed annotations are inferred
    checker = rc.RC(prog, infer=(stage == 'E'))
    R = checker.R
    shape = '?'
    rel = 'unknown'
    if old_ir is not None and new_ir is not None:
        o, n = checker.dt(old_ir), checker.dt(new_ir)
        shape = '%s->%s' % (_shape(o, old_ir), _shape(n, new_ir))
        rel = relation(R, o, n, old_ir, new_ir, lang)
        if rel != 'unrelated':
            viols.append(('C04/related-replacement/%s/%s/%s' % (rel, kind, shape),
                          {'old': rm.show(o), 'new': rm.show(n), 'kind': kind}))
        # (3) message
        msg = str(t.error_injected)
        if str(old_ir) not in msg or str(new_ir) not in msg:
            viols.append(('C04/message-does-not-name-types', {'msg': msg[:300], 'old': str(old_ir), 'new': str(new_ir)}))
    if not t.error_injected:
        viols.append(('C04/transformed-without-message', {}))
    # (4) a correct checker must reject
    rc_viols = checker.run()
    rejected = any(v['rule'][0] == 'R' for v in rc_viols)
    if base_rc_clean and not rejected:
        viols.append(('C04/reference-checker-accepts-mutant/%s/%s/%s' % (rel, kind, shape),
                      {'slot': [mutdiff.show_slot(s) for s in slots[:2]], 'message': str(t.error_injected)[:200]}))
    # (5) translation changed; javac must reject
    if text == base_text:
        viols.append(('C04/translation-unchanged/%s/%s' % (rel, kind),
                      {'slot': [mutdiff.show_slot(s) for s in slots[:2]], 'message': str(t.error_injected)[:200]}))
    elif lang == 'java':
        ctx.java.append((key, pg.translate(prog, lang, package='src.@PKG@'),
                         {'kind': kind, 'shape': shape, 'message': str(t.error_injected)[:200],
                          'rc_rejects': rejected, 'rel': rel}))
    col.case(key=(progcheck.text_key(base_text), stage, kind, str(t.error_injected)), nontrivial=True,
             sample=lambda: {'lang': lang, 'stage': stage, 'seed': case.seed, 'mutation_seed': mseed, 'kind': kind,
                             'message': str(t.error_injected)[:200], 'rc_rejects': rejected})
    for sig, d in viols:
        col.violation(sig, dict(d, lang=lang, stage=stage), key,
                      size=(len(case.tape) if case.tape else 100000 + len(base_text)))


def _shape(t, ir):
    if t is None:
        return 'none'
    if type(ir).__name__ == 'WildCardType':
        # a declared top-level wildcard (the mutation does not unwrap it)
        return 'wildcard:' + _shape(t, getattr(ir, 'bound', None))
    k = t[0]
    if k == 'b':
        return ('primitive-' if getattr(ir, 'primitive', False) else 'builtin-') + t[1].replace('Type', '')
    if k == 'i' and t[1].startswith('Function') and t[1][8:].isdigit():
        return 'function-type'
    if k == 'v':
        return 'typevar' if t[2] is None else ('typevar-chain' if t[2][0] == 'v' else 'typevar-bounded')
    return {'c': 'class', 'i': 'generic', 'top': 'top', 'bot': 'bottom'}.get(k, k)


def javac_leg(ctx):
    col = ctx.col
    if not ctx.java:
        return
    root = os.path.realpath(tempfile.mkdtemp(prefix='verif_c04_'))
    try:
        paths = []
        for i, (key, text, d) in enumerate(ctx.java):
            pkg = 'm%04d' % i
            dd = os.path.join(root, 'src', pkg)
            os.makedirs(dd)
            p = os.path.join(dd, 'Main.java')
            with open(p, 'w') as f:
                f.write(text.replace('@PKG@', pkg))
            paths.append(p)
        res = {}
        for i in range(0, len(paths), 25):
            res.update(jd.compile_each_alone(['-nowarn', '-proc:none', '-d', os.path.join(root, 'out')], paths[i:i + 25], root))
        for p, (key, text, d) in zip(paths, ctx.java):
            parsed = jd.parse(res[p][1])
            errs = jd.errors_by_file(parsed).get(p, [])
            col.feature('java_mutants_compiled')
            if errs:
                col.feature('java_mutants_rejected_by_javac')
            else:
                col.violation('C04/javac-accepts-mutant/%s/%s/%s' % (d['rel'], d['kind'], d['shape']),
                              dict(d, lang='java'), key, size=100000 + len(text))
    finally:
        shutil.rmtree(root, ignore_errors=True)


def make_judge(ctx, rerolls):
    col, lang = ctx.col, ctx.lang

    def judge(case):
        prog = case.program
        try:
            base_text = pg.translate(prog, lang)
        except Exception:
            return [], False, None, repr(case.key())[:60]
        base_viols, _ = rc.check_program(prog)
        clean = not any(v['rule'][0] == 'R' for v in base_viols)
        if not clean:
            col.feature('input_rejected_by_RC(C01 territory)')
        seed0 = case.seed or len(case.tape or [])
        for j in range(rerolls):
            judge_mutation(ctx, case, prog, base_text, clean, 'G', seed0 * 31 + j)
        # erased variant
        try:
            import random
            boot._state['utils'].random.r = random.Random(seed0 + 99)
            eprog = pg.clone(prog)
            te = pg.erase(eprog, lang)
            if te.is_transformed:
                etext = pg.translate(eprog, lang)
                ebase, _ = rc.check_program(eprog, infer=True)
                eclean = clean and not any(v['rule'][0] == 'R' for v in ebase)
                if clean and not eclean:
                    col.feature('erased_input_rejected_by_RC(C03 territory)')
                for j in range(max(1, rerolls // 2)):
                    judge_mutation(ctx, case, eprog, etext, eclean, 'E', seed0 * 31 + 1000 + j)
        except Exception as e:
            col.feature('pipeline_exception(C18 territory):' + type(e).__name__)
        return [], False, None, progcheck.text_key(base_text) + 'base'
    return judge


class HandCollector:
    """Adapter: tags signatures of violations found on hand-shaped programs (vlib/handprog.py)."""

    def __init__(self, col, labels):
        self._col, self._labels = col, labels

    def __getattr__(self, name):
        return getattr(self._col, name)

    def violation(self, sig, detail, case, size=0):
        tag = '+'.join(sorted({l.split('/')[0] for l in self._labels}))
        self._col.violation(sig + '/handmade:' + tag, dict(detail, units=self._labels),
                            {'handmade': self._labels, 'lang': detail.get('lang'), 'note': 'see vlib/handprog.py'}, size=len(self._labels))


def handmade_leg(spec, col, n, rerolls):
    from vlib import handprog, hyp
    lang = spec['lang']

    class Case:
        pass

    def one(x):
        prog, labels = x
        hc = HandCollector(col, labels)
        hctx = Ctx(hc, lang)
        case = Case()
        case.program, case.lang, case.seed, case.tape, case.mode, case.switches = prog, lang, 3, None, 'handmade', []
        case.key = lambda: {'handmade': labels, 'lang': lang}
        make_judge(hctx, rerolls)(case)
        col.feature('handmade_programs')
    hyp.explore(handprog.programs(lang), one, n, col.shard_seed('hand'))


def run_shard(spec, col):
    quick = col.tier == 'quick'
    lang = spec['lang']
    boot.init(lang)
    handmade_leg(spec, col, 40 if quick else 800, 4)
    ctx = Ctx(col, lang)
    progcheck.run(spec, col, make_judge(ctx, 4 if quick else 6), n_seed=10 if quick else 250,
                  n_tape=16 if quick else 500, shrink=False)
    javac_leg(ctx)


def replay(key, col):
    lang = key['lang']
    boot.init(lang)
    case = pg.regen({k: v for k, v in key.items() if k not in ('stage', 'mseed')})
    if case.program is None:
        return
    ctx = Ctx(col, lang)
    prog = case.program
    seed0 = case.seed or len(case.tape or [])
    if key.get('stage') == 'E':
        import random
        boot._state['utils'].random.r = random.Random(seed0 + 99)
        prog = pg.clone(prog)
        pg.erase(prog, lang)
    base_text = pg.translate(prog, lang)
    base_viols, _ = rc.check_program(case.program)
    clean = not any(v['rule'][0] == 'R' for v in base_viols)
    judge_mutation(ctx, case, prog, base_text, clean, key.get('stage', 'G'), key.get('mseed', 0))
    javac_leg(ctx)
