"""Program-generation driver (PG).

gen_case() runs the project's own generator under a configuration and a
source of randomness the harness controls:
  * seed mode - utils.random.r is a random.Random seeded with the case seed;
  * tape mode - utils.random.r is a DrawRandom whose two primitives draw from
    Hypothesis (so a failing program shrinks), every drawn number is recorded
    on a tape, and TapeRandom replays a tape without Hypothesis.
Work is bounded by counters (generate_expr calls), never by wall clock.
All observation is by wrapping attributes of the imported modules from
outside; nothing in the repository is changed.
"""
import contextlib
import copy
import pickle
import random as pyrandom

from vlib import boot


ERASURE_MAX_COMBINATIONS = int(__import__('os').environ.get('VERIF_ERASURE_MAX_COMBINATIONS', '1200'))


class Oversize(BaseException):
    """Raised from the generate_expr wrapper when the step budget is used up
    (BaseException so that no `except Exception` in the tree swallows it)."""


class TapeExhausted(BaseException):
    pass


class DrawRandom(pyrandom.Random):
    """random.Random whose primitives are Hypothesis draws."""

    def __new__(cls, *a, **k):
        return super().__new__(cls)

    def __init__(self, data, max_draws=6000):
        super().__init__(0)
        self._data = data
        self.tape = []
        self._max = max_draws

    def _note(self, n, v):
        self.tape.append([n, v])
        if len(self.tape) > self._max:
            raise Oversize('tape longer than %d draws' % self._max)

    def random(self):
        from hypothesis import strategies as st
        v = self._data.draw(st.integers(0, (1 << 20) - 1)) / float(1 << 20)
        self._note(0, v)
        return v

    def _randbelow(self, n):
        from hypothesis import strategies as st
        if n <= 1:
            self._note(n, 0)
            return 0
        v = self._data.draw(st.integers(0, n - 1))
        self._note(n, v)
        return v

    def getrandbits(self, k):
        from hypothesis import strategies as st
        v = self._data.draw(st.integers(0, (1 << k) - 1))
        self._note(-k, v)
        return v

    def seed(self, *a, **k):
        pass


class TapeRandom(pyrandom.Random):
    """Replays a recorded tape; when the tape is exhausted (the code under
    test changed) it continues with a seeded PRNG and flags divergence."""

    def __new__(cls, *a, **k):
        return super().__new__(cls)

    def __init__(self, tape):
        super().__init__(0)
        self._tape = list(tape)
        self._i = 0
        self._fallback = pyrandom.Random(12345)
        self.diverged = False

    def _next(self, n):
        if self._i < len(self._tape):
            m, v = self._tape[self._i]
            self._i += 1
            if m == n:
                return v
            self.diverged = True
            if n == 0:
                return self._fallback.random()
            if n < 0:
                return self._fallback.getrandbits(-n)
            return v % n if isinstance(v, int) and n > 0 else self._fallback.randrange(n)
        self.diverged = True
        if n == 0:
            return self._fallback.random()
        if n < 0:
            return self._fallback.getrandbits(-n)
        return self._fallback.randrange(n) if n > 0 else 0

    def random(self):
        return self._next(0)

    def _randbelow(self, n):
        if n <= 1:
            self._next(n)
            return 0
        return self._next(n)

    def getrandbits(self, k):
        return self._next(-k)

    def seed(self, *a, **k):
        pass


class Case:
    def __init__(self, lang, mode, seed, switches, limits):
        self.lang, self.mode, self.seed = lang, mode, seed
        self.switches, self.limits = list(switches), dict(limits or {})
        self.program = None
        self.tape = None
        self.counters = {}
        self.error = None          # exception raised by the code under test (stage, repr, frames)
        self.oversize = False
        self.records = None

    def key(self):
        k = {'lang': self.lang, 'mode': self.mode, 'seed': self.seed, 'switches': self.switches,
             'limits': self.limits, 'tape': self.tape if self.mode in ('tape', 'handmade') else None}
        if self.mode == 'handmade':
            k['handmade'] = getattr(self, 'labels', [])
        return k


_wrapped = {}


def install_counters():
    """Wrap Generator.generate_expr once: count calls, track the generator's
    depth counter and the nesting of generate_expr frames."""
    if 'gen' in _wrapped:
        return
    from src.generators.generator import Generator
    orig = Generator.generate_expr
    st = {'calls': 0, 'max_depth': 0, 'nest': 0, 'max_nest': 0, 'budget': None}

    def generate_expr(self, *a, **k):
        st['calls'] += 1
        if st['budget'] is not None and st['calls'] > st['budget']:
            raise Oversize('generate_expr budget %d exceeded' % st['budget'])
        d = getattr(self, 'depth', 0)
        if d > st['max_depth']:
            st['max_depth'] = d
            if st['budget'] is not None and d > st.get('depth_abort', 10 ** 9):
                raise Oversize('generator depth counter %d: runaway nesting' % d)
        st['nest'] += 1
        if st['nest'] > st['max_nest']:
            st['max_nest'] = st['nest']
        try:
            return orig(self, *a, **k)
        finally:
            st['nest'] -= 1
    Generator.generate_expr = generate_expr
    _wrapped['gen'] = st


def frames_of(exc, limit=6):
    import traceback
    import os
    out = []
    for fr in traceback.extract_tb(exc.__traceback__):
        fn = fr.filename
        if '/src/' in fn or fn.endswith('hephaestus.py'):
            out.append('%s:%s:%d' % (os.path.basename(fn), fr.name, fr.lineno))
    return out[-limit:]


def gen_case(lang, mode='seed', seed=0, switches=(), limits=None, data=None, tape=None,
             budget=20000, recorder=None):
    """Generate one program.  Returns a Case; case.error is set if the code
    under test raised, case.oversize if the step budget was exceeded."""
    boot.init(lang)
    install_counters()
    from src.generators.generator import Generator
    case = Case(lang, mode, seed, switches, limits)
    boot.apply_config(switches, limits)
    rnd = None
    if mode == 'tape':
        rnd = DrawRandom(data) if tape is None else TapeRandom(tape)
    boot.reset_case(seed=seed, rnd=rnd)
    st = _wrapped['gen']
    md_ = (limits or {}).get('max_depth', 6)
    st.update(calls=0, max_depth=0, nest=0, max_nest=0, budget=budget, depth_abort=4 * (2 * md_ + 40))
    if recorder is not None:
        recorder.take()          # drop leftovers of a generation that Hypothesis aborted (overrun / stop)
    ctx = recorder.recording() if recorder is not None else contextlib.nullcontext()
    try:
        with ctx:
            case.program = Generator(language=lang, options={}).generate()
    except Oversize:
        case.oversize = True
    except (KeyboardInterrupt, SystemExit):
        raise
    except BaseException as e:
        if type(e).__module__.startswith('hypothesis'):
            raise
        case.error = {'stage': 'generate', 'type': type(e).__name__, 'msg': str(e)[:300], 'frames': frames_of(e)}
    finally:
        st['budget'] = None
        st['nest'] = 0
    if isinstance(rnd, DrawRandom):
        case.tape = rnd.tape
    elif isinstance(rnd, TapeRandom):
        case.tape = list(tape)
        case.tape_diverged = rnd.diverged
    case.counters = {'generate_expr_calls': st['calls'], 'max_generator_depth': st['max_depth'],
                     'max_generate_expr_nesting': st['max_nest']}
    if recorder is not None:
        case.records = recorder.take()
    return case


def hand_case(lang, draw=None, seed=None, trace=None):
    """A hand-shaped program (vlib/handprog.py) as a Case: mode 'handmade', tape = the trace of choices (replayable)."""
    from vlib import handprog
    boot.init(lang)
    boot.reset_case(seed=0)
    ch = handprog.Chooser(draw=draw, rnd=pyrandom.Random(seed) if seed is not None else None, trace=trace)
    case = Case(lang, 'handmade', seed or 0, (), {})
    case.program, case.labels, case.tape = handprog.build(lang, ch)
    case.counters = {'generate_expr_calls': 0, 'max_generator_depth': 0, 'max_generate_expr_nesting': 0}
    return case


def regen(key, recorder=None, budget=20000):
    """Re-generate a case from its replay key (seed or tape)."""
    if key.get('mode') == 'handmade':
        return hand_case(key['lang'], trace=key.get('tape') or [])
    return gen_case(key['lang'], mode=key['mode'], seed=key.get('seed', 0), switches=key.get('switches', ()),
                    limits=key.get('limits'), tape=key.get('tape') if key['mode'] == 'tape' else None,
                    budget=budget, recorder=recorder)


# ------------------------------------------------------------------ pipeline stages
def translate(program, lang=None, package='src.pkg', translator=None, options=None):
    from src import utils
    lang = lang or program.language
    tr = translator or boot.translator_class(lang)(package, options if options is not None else {'cast_numbers': False})
    return utils.translate_program(tr, program)


class ErasureBudget(Exception):
    """The powerset search of TypeErasure used up the harness' step budget: the case is discarded (never a violation)."""


_feas = {'n': 0, 'limit': None}


def _install_feasibility_counter():
    if 'done' in _feas:
        return
    _feas['done'] = True
    from src.analysis import type_dependency_analysis as tda
    orig = tda.is_combination_feasible

    def is_combination_feasible(type_graph, combination):
        _feas['n'] += 1
        if _feas['limit'] is not None and _feas['n'] > _feas['limit']:
            raise Oversize('erasure search budget')
        return orig(type_graph, combination)
    tda.is_combination_feasible = is_combination_feasible


last_erasure = {}


class ErasureUnbounded(Exception):
    """TypeErasure drew more combinations for one function than its max_combinations option allows."""


class _CountingItertools:
    """Stand-in for the `itertools` name inside src.transformations.type_erasure: counts the combinations one
    search (one chain.from_iterable iterator) hands out."""

    def __init__(self, real):
        self._real = real
        self.limit = None
        self.worst = 0
        outer = self

        class chain:
            @staticmethod
            def from_iterable(it):
                n = 0
                for x in real.chain.from_iterable(it):
                    n += 1
                    if n > outer.worst:
                        outer.worst = n
                    if outer.limit is not None and n > outer.limit:
                        raise Oversize('erasure search drew %d combinations' % n)
                    yield x
        self.chain = chain

    def __getattr__(self, name):
        return getattr(self._real, name)


def _install_combination_counter():
    if 'comb' in _feas:
        return _feas['comb']
    import itertools
    from src.transformations import type_erasure
    c = _CountingItertools(itertools)
    type_erasure.itertools = c
    _feas['comb'] = c
    return c


def erase(program, lang, options=None, budget=2500):
    from src.transformations.type_erasure import TypeErasure
    _install_feasibility_counter()
    comb = _install_combination_counter()
    opts = options if options is not None else {'timeout': 600, 'max_combinations': ERASURE_MAX_COMBINATIONS}
    mc = opts.get('max_combinations', 500000)
    comb.limit = (mc + 2) if mc else None
    comb.worst = 0
    # max_combinations is an option of the mutation (default 500000: the powerset search of one function can then take
    # minutes); the harness bounds it so that cases stay small - the search then simply stops earlier
    t = TypeErasure(program, lang, None, opts)
    _feas['n'] = 0
    _feas['limit'] = budget
    try:
        t.transform()
    except Oversize as e:
        if 'combinations' in str(e):
            raise ErasureUnbounded(str(e) + ' although max_combinations=%s' % mc)
        raise ErasureBudget('more than %d feasibility checks' % budget)
    finally:
        _feas['limit'] = None
        comb.limit = None
        last_erasure['combinations'] = comb.worst
        last_erasure['feasibility_calls'] = _feas['n']
    return t


def overwrite(program, lang, options=None):
    from src.transformations.type_overwriting import TypeOverwriting
    t = TypeOverwriting(program, lang, None, options if options is not None else {'timeout': 600})
    t.transform()
    return t


def clone(program):
    return pickle.loads(pickle.dumps(program))


def stage_error(stage, e):
    return {'stage': stage, 'type': type(e).__name__, 'msg': str(e)[:300], 'frames': frames_of(e)}


# ------------------------------------------------------------------ features
def features(program):
    """Feature vector of a program (AST walk by attributes)."""
    from src.ir import ast
    f = {}

    def bump(k, n=1):
        f[k] = f.get(k, 0) + n
    decls = top_decls(program)
    for d in decls:
        bump('top_' + type(d).__name__)
    seen = set()

    def walk(n, depth):
        if n is None or id(n) in seen:
            return
        seen.add(id(n))
        f['max_ast_depth'] = max(f.get('max_ast_depth', 0), depth)
        bump('nodes')
        tn = type(n).__name__
        if isinstance(n, ast.ClassDeclaration):
            if n.type_parameters:
                bump('generic_classes')
                if any(getattr(p, 'bound', None) is not None for p in n.type_parameters):
                    bump('bounded_class_params')
                if any(not p.variance.is_invariant() for p in n.type_parameters):
                    bump('variant_class_params')
            if n.superclasses:
                bump('classes_with_super')
            if n.class_type != ast.ClassDeclaration.REGULAR:
                bump('abstract_or_interface')
        elif isinstance(n, ast.FunctionDeclaration):
            if n.type_parameters:
                bump('generic_functions')
            if getattr(n, 'override', False):
                bump('overrides')
            if any(p.vararg for p in n.params):
                bump('varargs')
            if any(p.default is not None for p in n.params):
                bump('default_params')
        elif isinstance(n, ast.Lambda):
            bump('lambdas')
        elif isinstance(n, ast.FunctionReference):
            bump('func_refs')
        elif isinstance(n, ast.New):
            ct = n.class_type
            if hasattr(ct, 'type_args'):
                bump('generic_new')
                if any(type(a).__name__ == 'WildCardType' for a in ct.type_args):
                    bump('new_with_projection')
        elif isinstance(n, ast.FunctionCall):
            bump('calls')
            if n.receiver is not None:
                bump('receiver_calls')
            if n.is_ref_call:
                bump('ref_calls')
            if n.type_args:
                bump('calls_with_type_args')
        elif isinstance(n, ast.Conditional):
            bump('conditionals')
            if isinstance(n.cond, ast.Is):
                bump('smart_casts')
        elif isinstance(n, ast.Assignment):
            bump('assignments')
        elif isinstance(n, ast.FieldAccess):
            bump('field_accesses')
        elif isinstance(n, ast.VariableDeclaration):
            bump('var_decls')
            if n.var_type is None:
                bump('var_decls_untyped')
        try:
            ch = n.children()
        except Exception:
            ch = []
        for c in ch:
            walk(c, depth + 1)
    for d in decls:
        walk(d, 1)
    return f


def top_decls(program):
    from src.ir import ast
    return list(program.context.get_declarations(ast.GLOBAL_NAMESPACE, only_current=True).values())


# ------------------------------------------------------------------ Hypothesis strategies for configurations
def config_strategy(lang_fixed=None, small=False):
    from hypothesis import strategies as st
    sw = st.lists(st.sampled_from(boot.SWITCHES), unique=True, max_size=4).map(sorted)
    if small:
        limits = st.fixed_dictionaries({
            'max_depth': st.integers(1, 4),
            'min_top_level': st.integers(0, 2),
            'max_top_level': st.integers(2, 4),
            'max_var_decls': st.integers(0, 3),
        })
    else:
        limits = st.fixed_dictionaries({
            'max_depth': st.sampled_from([6, 6, 6, 6, 2, 3, 4, 5, 7]),
            'min_top_level': st.sampled_from([5, 5, 1, 3]),
            'max_top_level': st.sampled_from([10, 10, 5, 7]),
        })
    return st.tuples(sw, limits)


# ------------------------------------------------------------------ origin tags
_origin = {'map': {}, 'on': False}


def install_origin_tags():
    """Wrap every Generator.gen_* / _gen_* routine: the AST node it returns is
    entered (first writer wins = innermost routine) in an identity-keyed side
    table with the routine name."""
    if 'done' in _origin:
        return
    _origin['done'] = True
    from src.generators.generator import Generator
    from src.ir.node import Node
    for name in list(vars(Generator)):
        if not (name.startswith('gen_') or name.startswith('_gen_')):
            continue
        fn = getattr(Generator, name)
        if not callable(fn):
            continue

        def wrap(fn=fn, name=name):
            def wrapped(self, *a, **k):
                r = fn(self, *a, **k)
                if _origin['on'] and isinstance(r, Node):
                    _origin['map'].setdefault(id(r), (name, r))
                return r
            wrapped.__name__ = name
            return wrapped
        setattr(Generator, name, wrap())


def origin_tags(on=True):
    _origin['on'] = on
    _origin['map'] = {}


def origin_of(node_id):
    r = _origin['map'].get(node_id)
    return r[0] if r else 'unknown'
