"""C07 — instantiating a generic class substitutes everywhere and mutates nothing.

Hypothesis draws a class table (TG universe: generic classes with bounds,
variance, supertypes that pass / nest their parameters) and a history of
operations on *shared* type objects: new(con, args), substitute_type(t, map),
to_variance_free, to_type_variable_free, instantiate_type_constructor,
get_supertypes, re-instantiation of earlier constructors with earlier results
as arguments.  Oracle:
 (1) the supertypes of every instantiation, transitively, equal the declared
     supertypes with every occurrence of the class's type parameters replaced
     by the corresponding argument (reference substitution on immutable terms);
 (2) after every operation every constructor, argument and earlier result is
     structurally identical to a deep copy taken when it entered the pool;
 (3) substitute(t, {}) == t, and substituting ground types for all type
     variables leaves no type variable."""
import copy

from hypothesis import strategies as st

from vlib import boot, fuzz, hyp, rm, sd, tg

LEVEL = 'exploration'
RULE = ('case = (class table, history of <= 25 operations on a shared pool of type objects); operations: new, substitute_type with '
        'partial / total / empty maps, to_variance_free, to_type_variable_free, instantiate_type_constructor, get_supertypes; '
        'non-trivial = the history instantiates one constructor >= 2 times and some instantiated class has a supertype in which a type '
        'parameter occurs nested or bounded; distinct = distinct (table, operation list)')
ASSUMPTIONS = [
    'arguments of new() are type-variable-free (ground types, possibly with use-site projections) as the property states; '
    'substitute_type is also driven with maps to type variables',
    'the reference substitution is literal replacement on terms (a projection substituted under a projection yields a nested projection, '
    'exactly as WildCardType(new_bound, variance) does)',
]
MIN_NONTRIVIAL = {'quick': 300, 'thorough': 8000}
NSHARDS = 16
LANGS = ['kotlin', 'java', 'scala', 'groovy']


def shards(tier):
    return [{'k': k, 'lang': LANGS[k % 4]} for k in range(NSHARDS)]


def lsubst(t, th):
    """literal substitution on terms."""
    if t is None:
        return None
    k = t[0]
    if k == 'v':
        if t[1] in th:
            return th[t[1]]
        return ('v', t[1], lsubst(t[2], th)) if t[2] is not None else t
    if k == 'i':
        return ('i', t[1], tuple(lsubst(a, th) for a in t[2]))
    if k == 'p':
        return ('p', t[1], lsubst(t[2], th))
    return t


def term(x):
    return rm.to_term(x, None)


class Session:
    def __init__(self, u, col, ops_log):
        self.u, self.col, self.log = u, col, ops_log
        self.pool = []          # (ir, term)
        self.twins = []         # deep copies at entry
        self.viol = []
        self.instantiated = {}
        for t in u.ground_base():
            self.add(u.ir(t), t)
        self.cons = [(k, u.classes[k]) for k in u.generics()]
        self.con_twins = [copy.deepcopy(c) for _, c in self.cons]
        self.R = rm.RM(u.table)

    def add(self, ir, t):
        self.pool.append((ir, t))
        self.twins.append(copy.deepcopy(ir))

    def report(self, sig, detail):
        self.viol.append((sig, detail))

    # ---- (1) supertypes
    def ref_supers(self, t):
        if t[0] in ('b', 'c'):
            info = self.u.table.cls.get(t[1])
            return list(info['supers']) if info else None
        if t[0] == 'i':
            info = self.u.table.cls.get(t[1])
            if info is None or len(info['params']) != len(t[2]):
                return None
            th = {pn: a for (pn, pv, pb), a in zip(info['params'], t[2])}
            return [lsubst(s, th) for s in info['supers']]
        return None

    def check_supers(self, ir, t, what, depth=0):
        if depth > 6 or t is None or t[0] not in ('i', 'c'):
            return
        if rm.has_kind(t, ('v',)):
            return      # the property speaks about type-variable-free arguments
        want = self.ref_supers(t)
        if want is None:
            return
        try:
            got_ir = list(ir.supertypes)
            got = [term(x) for x in got_ir]
        except Exception as e:
            self.report('C07/supertypes-unreadable/' + type(e).__name__, {'type': rm.show(t)})
            return
        self.col.feature('supertype_levels_checked')
        if sorted(map(str, got)) != sorted(map(str, want)):
            shape = self.shape(t, want)
            self.report('C07/supertypes-not-substituted/%s/%s' % (what, shape),
                        {'type': rm.show(t), 'got': [rm.show(x) for x in got], 'want': [rm.show(x) for x in want]})
            return
        for x_ir, x in zip(got_ir, got):
            self.check_supers(x_ir, x, what, depth + 1)

    def shape(self, t, want):
        info = self.u.table.cls.get(t[1]) or {'supers': []}
        tags = []
        for s in info['supers']:
            if s[0] == 'i':
                if any(a[0] == 'v' for a in s[2]):
                    tags.append('direct')
                if any(a[0] == 'i' and rm.has_kind(a, ('v',)) for a in s[2]):
                    tags.append('nested')
                if any(a[0] == 'p' and rm.has_kind(a, ('v',)) for a in s[2]):
                    tags.append('wildcard-bound')
        return '+'.join(sorted(set(tags))) or 'ground'

    # ---- (2) nothing mutated
    def check_unchanged(self, what):
        for i, ((ir, t), tw) in enumerate(zip(self.pool, self.twins)):
            d = sd.pdiff(tw, ir, limit=2)
            if d:
                self.report('C07/argument-or-earlier-result-modified/%s/%s' % (what, _attr(d[0][0])),
                            {'object': rm.show(t), 'diff': [list(map(str, x)) for x in d]})
                self.twins[i] = copy.deepcopy(ir)
        for i, ((k, c), tw) in enumerate(zip(self.cons, self.con_twins)):
            d = sd.pdiff(tw, c, limit=2)
            if d:
                self.report('C07/generic-class-definition-modified/%s/%s' % (what, _attr(d[0][0])),
                            {'class': k, 'diff': [list(map(str, x)) for x in d]})
                self.con_twins[i] = copy.deepcopy(c)

    # ---- operations
    def run(self, ops):
        from src.ir import types as tp, type_utils as tu
        u = self.u
        for op in ops:
            kind = op[0]
            try:
                if kind == 'new' and self.cons:
                    key, con = self.cons[op[1] % len(self.cons)]
                    params = u.table.cls[key]['params']
                    args_ir, args_t = [], []
                    for j, (pn, pv, pb) in enumerate(params):
                        ir, t = self.pool[op[2][j % len(op[2])] % len(self.pool)]
                        if rm.has_kind(t, ('v',)):
                            ir, t = self.pool[0]
                        form = op[3][j % len(op[3])]
                        if form == 1 and not rm.is_proj(t) and pv != 'in':
                            ir, t = tp.WildCardType(ir, tp.Covariant), ('p', 'out', t)
                        elif form == 2 and not rm.is_proj(t) and pv != 'out':
                            ir, t = tp.WildCardType(ir, tp.Contravariant), ('p', 'in', t)
                        elif form == 3:
                            ir, t = tp.WildCardType(), rm.STAR
                        args_ir.append(ir)
                        args_t.append(t)
                    r = con.new(args_ir)
                    rt = ('i', key, tuple(args_t))
                    got = term(r)
                    if got != rt:
                        self.report('C07/new-result-has-wrong-arguments', {'got': rm.show(got), 'want': rm.show(rt)})
                    self.check_supers(r, rt, 'new')
                    self.instantiated[key] = self.instantiated.get(key, 0) + 1
                    self.add(r, rt)
                    self.col.feature('op_new')
                    # second step on the fresh result: rebuilds that go through the constructor *kept inside* the
                    # instantiation (the empty substitution, to_variance_free, re-instantiation with the same arguments)
                    r0 = tp.substitute_type(r, {})
                    if term(r0) != rt:
                        self.report('C07/empty-substitution-changes-type', {'input': rm.show(rt), 'got': rm.show(term(r0))})
                    self.check_supers(r0, term(r0), 'empty-substitution-of-new')
                    r1 = r.to_variance_free()
                    self.check_supers(r1, term(r1), 'to_variance_free-of-new')
                    r2 = r.t_constructor.new(list(args_ir))
                    if term(r2) != rt:
                        self.report('C07/new-result-has-wrong-arguments', {'got': rm.show(term(r2)), 'want': rm.show(rt)})
                    self.check_supers(r2, term(r2), 'kept-constructor-new')
                elif kind == 'subst':
                    ir, t = self.pool[op[1] % len(self.pool)]
                    fv = sorted(rm.free_vars(t))
                    mode = op[2]
                    th_ir, th_t = {}, {}
                    if mode != 'empty':
                        for j, name in enumerate(fv):
                            if mode == 'partial' and j % 2 == 1:
                                continue
                            a_ir, a_t = self.pool[op[3][j % len(op[3])] % len(self.pool)]
                            if mode == 'ground' and rm.has_kind(a_t, ('v',)):
                                a_ir, a_t = self.pool[0]
                            for tv in _type_vars(ir, name):
                                th_ir[tv] = a_ir
                            th_t[name] = a_t
                    r = tp.substitute_type(ir, th_ir)
                    want = lsubst(t, th_t)
                    got = term(r)
                    self.col.feature('op_substitute_' + mode)
                    if got != want:
                        self.report('C07/substitute-result-differs/%s' % mode,
                                    {'input': rm.show(t), 'map': {k: rm.show(v) for k, v in th_t.items()},
                                     'got': rm.show(got), 'want': rm.show(want)})
                    elif mode == 'ground' and fv and rm.has_kind(got, ('v',)):
                        self.report('C07/type-variable-left-after-ground-substitution', {'got': rm.show(got)})
                    else:
                        self.check_supers(r, got, 'substitute')
                    if not rm.is_proj(got):
                        self.add(r, got)
                elif kind == 'varfree':
                    ir, t = self.pool[op[1] % len(self.pool)]
                    if t[0] == 'i':
                        r = ir.to_variance_free()
                        self.check_supers(r, term(r), 'to_variance_free')
                        self.add(r, term(r))
                        self.col.feature('op_to_variance_free')
                elif kind == 'tvfree':
                    ir, t = self.pool[op[1] % len(self.pool)]
                    if t[0] == 'i':
                        r = ir.to_type_variable_free(u.factory)
                        rt = term(r)
                        if rm.has_kind(rt, ('v',)):
                            self.report('C07/to_type_variable_free-leaves-type-variable', {'input': rm.show(t), 'got': rm.show(rt)})
                        self.check_supers(r, rt, 'to_type_variable_free')
                        self.add(r, rt)
                        self.col.feature('op_to_type_variable_free')
                elif kind == 'inst' and self.cons:
                    key, con = self.cons[op[1] % len(self.cons)]
                    types = [ir for ir, t in self.pool if not rm.has_kind(t, ('v', 'p', 'star'))][:12]
                    import random
                    boot_random().r = random.Random(op[2])
                    r, _ = tu.instantiate_type_constructor(con, types)
                    rt = term(r)
                    self.check_supers(r, rt, 'instantiate_type_constructor')
                    self.instantiated[key] = self.instantiated.get(key, 0) + 1
                    self.add(r, rt)
                    self.col.feature('op_instantiate_type_constructor')
                elif kind == 'alias':
                    # gen_new builds `con.new(etype.type_args)` from the argument *list* of an existing type, and
                    # TypeOverwriting later edits `t.type_args[i] = ...` of one node's type in place: the type the list
                    # came from must keep its meaning
                    insts = [(ir, t) for ir, t in self.pool if t[0] == 'i' and t[2] and not rm.has_kind(t, ('v',))
                             and t[1] in dict(self.cons)]
                    if insts:
                        ir, t = insts[op[1] % len(insts)]
                        con = dict(self.cons)[t[1]]
                        r = con.new(ir.type_args)
                        j = op[2] % len(r.type_args)
                        other, _ = self.pool[op[3] % len(self.pool)]
                        r.type_args[j] = other
                        self.col.feature('op_new_from_argument_list_then_edited')
                elif kind == 'badnew' and self.cons:
                    # a rejected instantiation (wrong number of arguments) must leave the definition untouched
                    key, con = self.cons[op[1] % len(self.cons)]
                    n = len(u.table.cls[key]['params'])
                    args = [self.pool[(op[2] + j) % len(self.pool)][0] for j in range(n + 1 if op[3] else max(0, n - 1))]
                    try:
                        con.new(args)
                        self.col.feature('op_bad_arity_accepted')
                    except RecursionError:
                        raise
                    except Exception:
                        self.col.feature('op_bad_arity_rejected')
                elif kind == 'supers':
                    ir, t = self.pool[op[1] % len(self.pool)]
                    ir.get_supertypes()
                    self.col.feature('op_get_supertypes')
                elif kind == 'typevar':
                    # a type variable in scope enters the pool (function / class type parameter)
                    b_ir, b_t = self.pool[op[1] % len(self.pool)]
                    if op[2] and not rm.has_kind(b_t, ('p', 'star')):
                        v = tp.TypeParameter('Z%d' % (len(self.pool) % 3), tp.Invariant, b_ir)
                        self.add(v, ('v', v.name, b_t))
                    else:
                        v = tp.TypeParameter('Z%d' % (len(self.pool) % 3))
                        self.add(v, ('v', v.name, None))
                    vterm = self.pool[-1][1]
                    # a type whose wildcard bound mentions the variable inside a nested type: G<out H<Z>>
                    one = [k for k in u.generics() if len(u.table.cls[k]['params']) == 1 and
                           u.table.cls[k]['params'][0][2] is None and u.table.cls[k]['params'][0][1] != 'in']
                    if len(one) >= 1 and op[1] % 2 == 0:
                        inner_k, outer_k = one[op[1] % len(one)], one[(op[1] // 2) % len(one)]
                        inner = u.classes[inner_k].new([v])
                        w = tp.WildCardType(inner, tp.Covariant)
                        r2 = u.classes[outer_k].new([w])
                        self.add(r2, ('i', outer_k, (('p', 'out', ('i', inner_k, (vterm,))),)))
                    # a second variable whose *bound* mentions the first one, used as a type argument:
                    # G<Zz: H<Z>> - a substitution of Z alone must reach into the bound of Zz
                    if len(one) >= 1 and op[1] % 3 != 1:
                        inner_k, outer_k = one[(op[1] // 3) % len(one)], one[op[1] % len(one)]
                        dep = tp.TypeParameter('Zz%d' % (len(self.pool) % 3), tp.Invariant, u.classes[inner_k].new([v]))
                        dep_t = ('v', dep.name, ('i', inner_k, (vterm,)))
                        r3 = u.classes[outer_k].new([dep])
                        self.add(r3, ('i', outer_k, (dep_t,)))
                    # and an instantiation mentioning it
                    if self.cons:
                        key, con = self.cons[op[1] % len(self.cons)]
                        n = len(u.table.cls[key]['params'])
                        bounds_ok = all(pb is None for pn, pv, pb in u.table.cls[key]['params'])
                        if bounds_ok:
                            r = con.new([v] * n)
                            self.add(r, ('i', key, tuple([vterm] * n)))
                    self.col.feature('op_typevar')
            except RecursionError:
                self.report('C07/operation-raises/%s/RecursionError' % kind, {})
            except AssertionError as e:
                self.col.feature('impl_assertion:' + kind)
            except Exception as e:
                self.col.feature('impl_exception:%s:%s' % (kind, type(e).__name__))
            self.check_unchanged(kind)
        return self.viol


def boot_random():
    from src import utils
    return utils.random


def _type_vars(ir, name):
    """TypeParameter objects named `name` reachable in a type (as the keys substitute_type expects)."""
    from src.ir import types as tp
    out = []
    seen = set()

    def walk(x):
        if x is None or id(x) in seen:
            return
        seen.add(id(x))
        if isinstance(x, tp.TypeParameter):
            if x.name == name:
                out.append(x)
            walk(x.bound)
        elif isinstance(x, tp.WildCardType):
            walk(x.bound)
        elif isinstance(x, tp.ParameterizedType):
            for a in x.type_args:
                walk(a)
    walk(ir)
    return out


def _attr(path):
    import re
    parts = re.findall(r'\.([A-Za-z_]+)', path)
    return parts[-1] if parts else 'root'


OPS = st.one_of(
    st.tuples(st.just('new'), st.integers(0, 7), st.lists(st.integers(0, 40), min_size=1, max_size=3),
              st.lists(st.sampled_from([0, 0, 0, 1, 2, 3]), min_size=1, max_size=3)),
    st.tuples(st.just('new'), st.integers(0, 7), st.lists(st.integers(0, 40), min_size=1, max_size=3),
              st.lists(st.sampled_from([0, 0, 0, 1, 2, 3]), min_size=1, max_size=3)),
    st.tuples(st.just('subst'), st.integers(0, 40), st.sampled_from(['empty', 'partial', 'total', 'ground']),
              st.lists(st.integers(0, 40), min_size=1, max_size=3)),
    st.tuples(st.just('varfree'), st.integers(0, 40)),
    st.tuples(st.just('tvfree'), st.integers(0, 40)),
    st.tuples(st.just('inst'), st.integers(0, 7), st.integers(0, 10 ** 6)),
    st.tuples(st.just('supers'), st.integers(0, 40)),
    st.tuples(st.just('alias'), st.integers(0, 40), st.integers(0, 3), st.integers(0, 40)),
    st.tuples(st.just('badnew'), st.integers(0, 7), st.integers(0, 40), st.booleans()),
    st.tuples(st.just('typevar'), st.integers(0, 40), st.booleans()),
)


@st.composite
def cases(draw, lang):
    u = draw(tg.universes(lang))
    ops = draw(st.lists(OPS, min_size=3, max_size=25))
    return u, ops


def judge(u, ops, col, record=True):
    ses = Session(u, col, ops)
    viols = ses.run(ops)
    nested = any(rm.has_kind(s, ('v',)) and (any(a[0] in ('i', 'p') for a in s[2]) if s[0] == 'i' else False)
                 for k in u.order for s in u.table.cls[k]['supers']) or \
        any(pb is not None for k in u.order for pn, pv, pb in u.table.cls[k]['params'])
    nontriv = any(n >= 2 for n in ses.instantiated.values()) and nested
    if record:
        col.case(key=(u.spec(), [list(map(_plain, o)) for o in ops]), nontrivial=nontriv,
                 sample=lambda: {'table': u.describe(), 'history': [list(map(_plain, o)) for o in ops][:12],
                                 'pool_size': len(ses.pool)})
    return viols


def _plain(x):
    return list(x) if isinstance(x, (list, tuple)) else x


def make_one(col, found):
    def one(case):
        u, ops = case
        for sig, d in judge(u, ops, col):
            size = len(ops) * 10 + len(u.order)
            col.violation(sig, dict(d, table=u.describe()), {'universe': u.spec(), 'ops': [_plain_op(o) for o in ops]}, size=size)
            found[sig] = found.get(sig, 0) + 1
    return one


def fuzz_entry(spec, col):
    """coverage-guided leg (vlib/fuzz.py): same strategy (operation histories), same judge."""
    boot.init_types_only()
    from src import utils  # noqa: F401
    return cases(spec['lang']), make_one(col, {})


def run_shard(spec, col):
    boot.init_types_only()
    from src import utils  # noqa: F401 (word pool import is seeded by init_types_only)
    lang = spec['lang']
    strategy = cases(lang)
    found = {}
    one = make_one(col, found)
    n = 600 if col.tier == 'quick' else 8000
    hyp.explore(strategy, one, n, col.shard_seed())
    fuzz.campaign('C07', spec, col, runs=300 if col.tier == 'quick' else 10000)
    for sig in sorted(found)[:3]:
        best = {}

        def failing(case, sig=sig):
            u, ops = case
            v = [x for x in judge(u, ops, col, record=False) if x[0] == sig]
            if v and ('n' not in best or len(ops) <= best['n']):
                best.update(n=len(ops), u=u, ops=ops, d=v[0][1])
            return bool(v)
        hyp.minimize(strategy, failing, col.shard_seed(), max_examples=n + 100)
        if 'u' in best:
            col.violation(sig, dict(best['d'], table=best['u'].describe()),
                          {'universe': best['u'].spec(), 'ops': [_plain_op(o) for o in best['ops']]},
                          size=best['n'] * 10 + len(best['u'].order) - 5)


def _plain_op(o):
    return [list(x) if isinstance(x, (list, tuple)) else x for x in o]


def replay(case, col):
    boot.init_types_only()
    u = tg.universe_from_spec(case['universe'])
    ops = [tuple(tuple(x) if isinstance(x, list) else x for x in o) for o in case['ops']]
    for sig, d in judge(u, ops, col):
        col.violation(sig, dict(d, table=u.describe()), case, size=len(ops))
