"""Deterministic work budget: count line events inside the tested module(s)
and abort a call that exceeds its budget.  Used instead of wall-clock
timeouts so that 'does not return' is a reproducible verdict."""
import sys


class StepBudgetExceeded(Exception):
    pass


class Budget:
    def __init__(self, suffixes):
        self.suffixes = tuple(suffixes)
        self.count = 0
        self.limit = 0
        self._cache = {}

    def _global(self, frame, event, arg):
        fn = frame.f_code.co_filename
        ok = self._cache.get(fn)
        if ok is None:
            ok = fn.endswith(self.suffixes)
            self._cache[fn] = ok
        if not ok:
            return None
        return self._local

    def _local(self, frame, event, arg):
        if event == 'line':
            self.count += 1
            if self.count > self.limit:
                raise StepBudgetExceeded(self.count)
        return self._local

    def run(self, limit, fn, *args, **kw):
        """Returns (result, steps).  Raises StepBudgetExceeded."""
        self.count = 0
        self.limit = limit
        old = sys.gettrace()
        sys.settrace(self._global)
        try:
            return fn(*args, **kw), self.count
        finally:
            sys.settrace(old)
