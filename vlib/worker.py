"""Child side: runs one shard of one check in a fresh process and writes a
JSON result.  Invoked as `python -m vlib.worker <specfile>`."""
import importlib
import json
import os
import sys
import traceback

from vlib.collect import Collector


def load_arena_cache():
    """Allocator tuning only (see vlib/native/arena_cache.c); optional."""
    import ctypes
    so = os.path.join(os.path.dirname(os.path.dirname(os.path.abspath(__file__))), '.deps', 'arena_cache.so')
    if os.path.exists(so) and not os.environ.get('VERIF_NO_ARENA_CACHE'):
        try:
            ctypes.CDLL(so, mode=ctypes.RTLD_GLOBAL).verif_install_arena_cache()
            return True
        except Exception:
            return False
    return False


def main():
    load_arena_cache()
    with open(sys.argv[1]) as f:
        job = json.load(f)
    pid = job['pid']
    col = Collector(pid, job['tier'], job['seed'], job['k'], job['n'])
    try:
        mod = importlib.import_module('vlib.checks.' + pid.lower())
        spec = job['spec']
        if 'replay' in spec:
            mod.replay(spec['replay']['case'], col)
        elif 'corpus' in spec:
            for path in spec['corpus']:
                with open(path) as f:
                    rep = json.load(f)
                mod.replay(rep['case'], col)
                col.feature('corpus_replayed')
        else:
            mod.run_shard(spec, col)
        from vlib import hyp
        if hyp.flaky_events:
            col.feature('hypothesis_flaky_generation(leg cut short: draws depended on earlier cases)', len(hyp.flaky_events))
        res = col.result()
        res['status'] = 'ok'
    except BaseException as e:  # harness error, never a violation
        res = {'status': 'error',
               'error': 'shard %s: %s\n%s' % (job['k'], repr(e), traceback.format_exc()[-4000:])}
    with open(job['out'], 'w') as f:
        json.dump(res, f, default=str)
    sys.stdout.flush()
    os._exit(0)


if __name__ == '__main__':
    main()
