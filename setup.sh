#!/bin/sh
# Offline dependency check for the verification machinery.  Nothing is fetched.
set -e
cd "$(dirname "$0")"
PY=/venv/bin/python
if ! $PY -c "import hypothesis" 2>/dev/null; then
    /venv/bin/pip install --no-index --find-links /opt/veriftools/wheels --target "$(pwd)/.deps" hypothesis >/dev/null
fi
if ! PYTHONPATH="$(pwd)/.deps" $PY -c "import atheris" 2>/dev/null; then
    /venv/bin/pip install --no-index --find-links /opt/veriftools/wheels --target "$(pwd)/.deps" atheris >/dev/null 2>&1 || echo "setup: atheris not installable (thorough atheris legs are skipped)"
fi
PYTHONPATH="$(pwd)/.deps" $PY -c "import hypothesis, sys; print('setup ok: hypothesis', hypothesis.__version__)"
mkdir -p evidence replays
# optional allocator shim (speeds up the deeply recursive generator ~5x under 16-way parallelism)
if [ ! -f .deps/arena_cache.so ]; then
    mkdir -p .deps
    (gcc -O2 -shared -fPIC -o .deps/arena_cache.so vlib/native/arena_cache.c 2>/dev/null \
      || clang -O2 -shared -fPIC -o .deps/arena_cache.so vlib/native/arena_cache.c 2>/dev/null) \
      && echo "setup: arena cache shim built" || echo "setup: no C compiler, running without the arena cache shim"
fi
