"""Parent side of a check: fan out shards, merge, judge against the
known-findings file, write evidence and replay files, set the exit code.

Exit codes: 0 held / only listed findings; 1 unlisted violation; 2 harness
error or inconclusive (never printed as VIOLATION).
"""
import glob
import hashlib
import importlib
import json
import os
import subprocess
import sys
import time

ROOT = os.path.dirname(os.path.dirname(os.path.abspath(__file__)))
PY = '/venv/bin/python'
NCPU = 16


def repo_path():
    return os.environ.get('VERIF_REPO', '/repo')


def child_env():
    env = dict(os.environ)
    env['PYTHONHASHSEED'] = '0'
    env['PYTHONDONTWRITEBYTECODE'] = '1'
    env['HEPHAESTUS_VERIF'] = '1'
    env['VERIF_REPO'] = repo_path()
    # glibc allocator tuning only (the generator's deepcopy churn otherwise spends most of its time in munmap)
    env.setdefault('MALLOC_TOP_PAD_', '67108864')
    env.setdefault('MALLOC_TRIM_THRESHOLD_', '1000000000')
    env.setdefault('MALLOC_MMAP_THRESHOLD_', '1000000000')
    deps = os.path.join(ROOT, '.deps')
    pp = [ROOT]
    if os.path.isdir(deps):
        pp.append(deps)
    env['PYTHONPATH'] = os.pathsep.join(pp)
    env.pop('PYTEST_CURRENT_TEST', None)
    return env


def load_findings():
    path = os.path.join(ROOT, 'known_findings.json')
    if not os.path.exists(path):
        return []
    with open(path) as f:
        return json.load(f).get('findings', [])


def match_finding(findings, pid, signature, case=None):
    import fnmatch
    if '/handmade:' in signature or signature.endswith('/handmade'):
        # the same defect reproduced on a hand-shaped program (vlib/handprog.py) is the same finding
        base = signature.split('/handmade:')[0] if '/handmade:' in signature else signature[:-len('/handmade')]
        hit = match_finding(findings, pid, base, case)
        return hit if (hit is not None and hit.get('also_on_handmade_programs')) else None
    for f in findings:
        if f.get('property') != pid or f.get('status', 'open') != 'open':
            continue
        if f.get('cases') and not any(all((case or {}).get(k) == v for k, v in c.items()) for c in f['cases']):
            # a finding recorded for specific inputs covers the witness only when it is one of them
            continue
        if f.get('signature') == signature:
            return f
        globs = list(f.get('signature_globs', []))
        if f.get('signature_glob'):
            globs.append(f['signature_glob'])
        if any(fnmatch.fnmatchcase(signature, g) for g in globs):
            return f
    return None


def build_native():
    """Build the optional allocator shim if a fresh restore has not run setup yet."""
    so = os.path.join(ROOT, '.deps', 'arena_cache.so')
    src = os.path.join(ROOT, 'vlib', 'native', 'arena_cache.c')
    if os.path.exists(so) or not os.path.exists(src):
        return
    os.makedirs(os.path.dirname(so), exist_ok=True)
    for cc in ('gcc', 'clang', 'cc'):
        try:
            r = subprocess.run([cc, '-O2', '-shared', '-fPIC', '-o', so + '.tmp%d' % os.getpid(), src],
                               stdout=subprocess.DEVNULL, stderr=subprocess.DEVNULL)
            if r.returncode == 0:
                os.replace(so + '.tmp%d' % os.getpid(), so)
                return
        except OSError:
            pass


def run_workers(pid, tier, seed, specs, outdir, timeout):
    build_native()
    procs = []
    env = child_env()
    pending = list(enumerate(specs))
    running = []
    results = [None] * len(specs)
    t0 = time.time()
    while pending or running:
        while pending and len(running) < NCPU:
            k, spec = pending.pop(0)
            out = os.path.join(outdir, 'shard_%d.json' % k)
            specf = os.path.join(outdir, 'spec_%d.json' % k)
            with open(specf, 'w') as f:
                json.dump({'pid': pid, 'tier': tier, 'seed': seed, 'k': k,
                           'n': len(specs), 'spec': spec, 'out': out}, f)
            logf = open(os.path.join(outdir, 'shard_%d.log' % k), 'w')
            p = subprocess.Popen([PY, '-m', 'vlib.worker', specf], cwd=ROOT,
                                 env=env, stdout=logf, stderr=subprocess.STDOUT)
            running.append((k, p, out, logf))
        still = []
        for k, p, out, logf in running:
            rc = p.poll()
            if rc is None:
                if time.time() - t0 > timeout:
                    p.kill()
                    p.wait()
                    logf.close()
                    results[k] = {'status': 'error',
                                  'error': 'shard %d exceeded the hard time limit %ds (harness)' % (k, timeout)}
                else:
                    still.append((k, p, out, logf))
                continue
            logf.close()
            if os.path.exists(out):
                with open(out) as f:
                    results[k] = json.load(f)
            else:
                with open(os.path.join(outdir, 'shard_%d.log' % k)) as f:
                    tail = f.read()[-3000:]
                results[k] = {'status': 'error',
                              'error': 'shard %d exited %s without a result\n%s' % (k, rc, tail)}
        running = still
        if running:
            time.sleep(0.05)
    return results


def canonical(obj):
    return json.dumps(obj, sort_keys=True, default=str)


def main(argv):
    import argparse
    ap = argparse.ArgumentParser(prog='vcheck')
    ap.add_argument('pid')
    ap.add_argument('tier', nargs='?', default=os.environ.get('VERIF_TIER', 'quick'),
                    choices=['quick', 'thorough'])
    ap.add_argument('--replay')
    ap.add_argument('--shards', type=int, default=None)
    ap.add_argument('--keep', action='store_true')
    ap.add_argument('--no-evidence', action='store_true', help='self-test runs: do not touch evidence/ or replays/')
    a = ap.parse_args(argv)
    pid = a.pid.upper()
    seed = int(os.environ.get('VERIF_SEED', '1') or 1)
    sys.path.insert(0, ROOT)
    mod = importlib.import_module('vlib.checks.' + pid.lower())
    t0 = time.time()

    scratch_base = os.environ.get('VERIF_SCRATCH') or os.path.join(ROOT, '.scratch')
    outdir = os.path.join(scratch_base, '%s_%s_%d_%d' % (pid, a.tier, seed, os.getpid()))
    os.makedirs(outdir, exist_ok=True)

    if a.replay:
        with open(a.replay) as f:
            rep = json.load(f)
        specs = [{'replay': rep}]
    else:
        specs = mod.shards(a.tier)
        # committed regression corpus is replayed first by an extra shard
        corpus = sorted(glob.glob(os.path.join(ROOT, 'corpus', pid, '*.json')))
        if corpus:
            # one process per corpus case (cases of different languages cannot share a process); appended after the
            # regular shards so that their shard numbers (and seeds) do not depend on the size of the corpus
            specs = specs + [{'corpus': [c]} for c in corpus]
    timeout = getattr(mod, 'HARD_TIMEOUT', {}).get(a.tier, 3600 if a.tier == 'quick' else 6 * 3600)
    results = run_workers(pid, a.tier, seed, specs, outdir, timeout)

    findings = load_findings()
    errors = [r.get('error', '?') for r in results if r is None or r.get('status') != 'ok']
    evaluations = 0
    nontrivial = set()
    samples = []
    features = {}
    extra = {}
    viol_by_sig = {}
    counts_by_sig = {}
    for r in results:
        if not r or r.get('status') != 'ok':
            continue
        evaluations += r.get('evaluations', 0)
        nontrivial.update(r.get('nontrivial', []))
        for s in r.get('samples', []):
            if len(samples) < 8:
                samples.append(s)
        for k, v in r.get('features', {}).items():
            features[k] = features.get(k, 0) + v
        for k, v in r.get('extra', {}).items():
            if isinstance(v, (int, float)) and not isinstance(v, bool):
                if k.startswith('max_'):
                    extra[k] = max(extra.get(k, v), v)
                else:
                    extra[k] = extra.get(k, 0) + v
            elif isinstance(v, list):
                extra.setdefault(k, [])
                extra[k] = (extra[k] + v)[:20]
            elif isinstance(v, bool):
                extra[k] = extra.get(k, True) and v
            else:
                extra[k] = v
        for v in r.get('violations', []):
            sig = v['signature']
            counts_by_sig[sig] = counts_by_sig.get(sig, 0) + v.get('count', 1)
            cur = viol_by_sig.get(sig)
            if cur is None or v.get('size', 0) < cur.get('size', 0):
                viol_by_sig[sig] = v

    rc = 0
    known_hit = {}
    known_groups = {}
    n_viol = 0
    lines = []
    for sig in sorted(viol_by_sig):
        v = viol_by_sig[sig]
        f = match_finding(findings, pid, sig, v.get('case') if isinstance(v.get('case'), dict) else None)
        h = hashlib.sha1(canonical(v.get('case')).encode()).hexdigest()[:10]
        safe = ''.join(c if c.isalnum() or c in '-_.' else '_' for c in sig)[:80]
        rdir = os.path.join(ROOT, 'replays', pid) if not a.no_evidence else os.path.join(scratch_base, 'replays', pid)
        os.makedirs(rdir, exist_ok=True)
        rpath = os.path.join(rdir, '%s-%s.json' % (safe, h))
        with open(rpath, 'w') as fh:
            json.dump({'property': pid, 'signature': sig, 'detail': v.get('detail'),
                       'case': v.get('case')}, fh, indent=1, default=str)
        if f is not None:
            known_hit[sig] = counts_by_sig[sig]
            g = known_groups.setdefault(f.get('id', sig), {'n': 0, 'sigs': 0, 'eg': sig, 'witness': os.path.relpath(rpath, ROOT)})
            g['n'] += counts_by_sig[sig]
            g['sigs'] += 1
        else:
            n_viol += counts_by_sig[sig]
            rc = 1
            lines.append('VIOLATION property=%s replay=%s signature=%s count=%d detail=%s' % (
                pid, rpath, sig, counts_by_sig[sig], canonical(v.get('detail'))[:600]))

    for fid, g in sorted(known_groups.items()):
        lines.append('KNOWN-FINDING: property=%s %s signatures=%d count=%d e.g. %s witness=%s' % (
            pid, fid, g['sigs'], g['n'], g['eg'], g['witness']))
    if a.replay:
        for l in lines:
            print(l)
        for e in errors:
            print('HARNESS-ERROR: ' + e)
        if not a.keep:
            _rm(outdir)
        if errors:
            return 2
        print('replay: %s' % ('violation reproduced' if viol_by_sig else 'no violation'))
        return 1 if viol_by_sig else 0

    level = getattr(mod, 'LEVEL', 'exploration')
    cov = {
        'evaluations': evaluations,
        'distinct_nontrivial': len(nontrivial),
        'rule': getattr(mod, 'RULE', ''),
        'samples': samples,
        'features': dict(sorted(features.items())),
        'known_findings_hit': known_hit,
        'shards': len(specs),
    }
    cov.update(extra)
    if hasattr(mod, 'finish'):
        cov.update(mod.finish(a.tier, cov) or {})
    min_nt = getattr(mod, 'MIN_NONTRIVIAL', {}).get(a.tier, 2)
    ev = {
        'property_id': pid, 'tier': a.tier, 'seed': seed, 'level': level,
        'coverage': cov,
        'assumptions': getattr(mod, 'ASSUMPTIONS', []),
        'wall_s': round(time.time() - t0, 2),
        'violations': n_viol,
    }
    if not a.no_evidence:
        os.makedirs(os.path.join(ROOT, 'evidence'), exist_ok=True)
        with open(os.path.join(ROOT, 'evidence', pid + '.json'), 'w') as fh:
            json.dump(ev, fh, indent=1, default=str)
            fh.write('\n')
    for l in lines:
        print(l)
    for e in errors[:3]:
        print('HARNESS-ERROR: ' + e[-1500:])
    if len(errors) > 3:
        print('HARNESS-ERROR: ... %d more shards failed' % (len(errors) - 3))
    print('%s %s seed=%d evaluations=%d distinct_nontrivial=%d violations=%d known=%d wall=%.1fs' % (
        pid, a.tier, seed, evaluations, len(nontrivial), n_viol, len(known_hit), time.time() - t0))
    if not a.keep:
        _rm(outdir)
    if rc == 1:
        return 1
    if errors:
        return 2
    if len(nontrivial) < min_nt:
        print('INCONCLUSIVE: only %d non-trivial cases (< %d)' % (len(nontrivial), min_nt))
        return 2
    return 0


def _rm(d):
    import shutil
    shutil.rmtree(d, ignore_errors=True)
    try:
        os.rmdir(os.path.dirname(d))
    except OSError:
        pass
