"""C02 — Java translations of valid programs compile with javac.

Java programs from the real generator (all switch combinations; stage G and
after type erasure, stage E) are written the way the tool lays them out
(src/<pkg>/Main.java, `package src.<pkg>;`) and compiled with the installed
javac, each file alone (ground truth, parsed by vlib/jd.py - not by
src/compilers) and in Hypothesis-drawn batches of 2-20 files that also contain
type-overwriting victims.  Oracle: no `error:` for a G/E file; the verdict of
a file inside a batch equals its verdict alone (no error leaks to or from a
neighbour)."""
import hashlib
import os
import re
import shutil
import tempfile

from hypothesis import strategies as st

from vlib import boot, hyp, jd, pg

LEVEL = 'translation_validation'
RULE = ('case = Java source text of a generated program at stage G (generated) or E (after TypeErasure), compiled alone by '
        'javac 17 and again inside Hypothesis-drawn batches (size 2-20, random order, mixed with TypeOverwriting victims); '
        'non-trivial = the program has >= 1 generic class and >= 1 lambda or function reference; distinct = distinct source text; '
        'programs = files compiled alone, disagreements_checked = alone/batch verdict comparisons')
ASSUMPTIONS = [
    'javac 17.0 is the judge although javac may itself be wrong (finding that is the tool\'s purpose): each rejection bucket is triaged by hand',
    'compilation uses the tool\'s own flags (-nowarn) and package layout',
]
MIN_NONTRIVIAL = {'quick': 150, 'thorough': 3000}
NSHARDS = 16
HARD_TIMEOUT = {'quick': 1800, 'thorough': 5 * 3600}


def shards(tier):
    return [{'k': k, 'lang': 'java'} for k in range(NSHARDS)]


def message_key(msg):
    """Bucket of a javac message: its stable head with names and types removed."""
    m = msg.strip()
    cap = '+captured-type' if 'CAP#' in m else ''
    m = re.sub(r'CAP#\d+', 'CAP', m)
    head = m.split(':')[0]
    head = re.sub(r'\b[A-Z][A-Za-z0-9_]*(<[^:]*>)?', 'T', head)
    head = re.sub(r'\b[a-z][a-z0-9_]*\b', lambda x: x.group(0) if x.group(0) in KEYWORDS else 'x', head)
    head = re.sub(r'(x )+', 'x ', head)
    return re.sub(r'\s+', '-', head.strip())[:60] + cap


KEYWORDS = set('incompatible types cannot find symbol be converted to applied given method constructor in class not is '
               'abstract and does override inferred type conform upper bound lower bounds argument mismatch no suitable found '
               'for variable already defined unreported exception reference ambiguous both match bad operand binary operator '
               'unexpected required missing return statement non-static from a static context might have been initialized '
               'final assign value lambda expression local variables referenced must or effectively illegal start of '
               'expected generic array creation infer arguments diamond'.split())


def write_program(root, pkg, text):
    d = os.path.join(root, 'src', pkg)
    os.makedirs(d, exist_ok=True)
    path = os.path.join(d, 'Main.java')
    with open(path, 'w') as f:
        f.write(text)
    return path


def build_programs(lang, col, n_seed, rnd_seed):
    """Generate programs; returns list of entries {pkg, stage, text, key, expect_ok}."""
    out = []
    counter = [0]

    def add(case, stage, text, expect_ok, feats):
        counter[0] += 1
        out.append({'pkg': 'p%03d%s' % (counter[0], stage.lower()), 'stage': stage, 'text': text,
                    'key': dict(case.key(), stage=stage), 'expect_ok': expect_ok, 'feats': feats})

    def one(x):
        seed, (sw, limits) = x
        case = pg.gen_case(lang, 'seed', seed, sw, limits)
        if case.program is None:
            col.feature('discarded_generation_failed_or_oversize')
            return
        try:
            feats = pg.features(case.program)
            prog = case.program
            # package placeholder is patched in when the file is written
            add(case, 'G', pg.translate(prog, lang, package='src.@PKG@'), True, feats)
            utils = boot._state['utils']
            import random
            utils.random.r = random.Random(seed ^ 0x5bd1e995)
            te = pg.erase(prog, lang)
            if te.is_transformed:
                add(case, 'E', pg.translate(prog, lang, package='src.@PKG@'), True, feats)
            to = pg.overwrite(prog, lang)
            if to.is_transformed:
                add(case, 'O', pg.translate(prog, lang, package='src.@PKG@'), False, feats)
        except Exception as e:
            col.feature('pipeline_exception(C18 territory):' + type(e).__name__)
    hyp.explore(st.tuples(st.integers(0, 2 ** 31 - 1), pg.config_strategy()), one, n_seed, rnd_seed)

    # hand-shaped programs (vlib/handprog.py): shapes the generator produces rarely (functions declared inside functions
    # with trailing varargs, constructor calls in receiver position, generic factories); they are built from the same IR
    # constructors and each is well-typed by the reference checker, so the Java translation of the program and of its
    # erased variant must compile as well
    def hand(data):
        from vlib import rc
        case = pg.hand_case(lang, draw=data.draw)
        if any(l.startswith('nested-reassigned') for l in case.labels):
            # a nested function assigning a local of its enclosing function: not expressible with Java lambdas (captured
            # locals must be effectively final) - outside the programs a Java run can contain
            col.feature('handmade_not_expressible_in_java(discarded)')
            return
        try:
            if any(v['rule'][0] in 'RS' for v in rc.check_program(case.program)[0]):
                col.feature('handmade_rejected_by_RC(discarded)')
                return
            feats = pg.features(case.program)
            add(case, 'G', pg.translate(case.program, lang, package='src.@PKG@'), True, feats)
            out[-1]['handmade'] = True
            import random
            boot._state['utils'].random.r = random.Random(len(case.tape))
            if pg.erase(case.program, lang).is_transformed:
                add(case, 'E', pg.translate(case.program, lang, package='src.@PKG@'), True, feats)
                out[-1]['handmade'] = True
            col.feature('handmade_programs')
        except Exception as e:
            col.feature('pipeline_exception(C18 territory):' + type(e).__name__)
    hyp.explore(st.data(), hand, max(6, n_seed // 2), rnd_seed + 1)
    return out


OBJECT_MEMBERS = ('equals', 'hashCode', 'toString', 'getClass', 'notify', 'notifyAll', 'wait', 'clone', 'finalize')


def object_member_names(col):
    """Regression of a repaired defect: a generated function named like a member of java.lang.Object
    (e.g. `static Integer equals(Integer... p)`; `Main.equals(90)` resolves to Object.equals before the
    varargs phase) makes javac reject a well-typed program.  Exhaustive over the word pool."""
    import os
    from src import utils
    words = utils.read_lines(os.path.join(utils.RandomUtils.resource_path, 'words'))
    bad = sorted({w for w in words for f in (w, w.lower()) if f in OBJECT_MEMBERS})
    col.add_extra('word_pool_words_checked_against_Object_members', len(words))
    if bad:
        col.violation('C02/identifier-collides-with-Object-member', {'words': bad}, {'kind': 'object-members'}, size=1)


def run_shard(spec, col):
    lang = 'java'
    boot.init(lang)
    quick = col.tier == 'quick'
    if spec['k'] == 0:
        object_member_names(col)
    progs = build_programs(lang, col, 20 if quick else 220, col.shard_seed('gen'))
    judge_programs(progs, col, n_batches=4 if quick else 70, seed=col.shard_seed('batch'))


def judge_programs(progs, col, n_batches, seed):
    if not progs:
        return
    root = tempfile.mkdtemp(prefix='verif_c02_')
    root = os.path.realpath(root)
    try:
        for p in progs:
            p['path'] = write_program(root, p['pkg'], p['text'].replace('@PKG@', p['pkg']))
        alone = {}
        # each file alone, many per JVM
        paths = [p['path'] for p in progs]
        for i in range(0, len(paths), 25):
            alone.update(jd.compile_each_alone(['-nowarn', '-proc:none', '-d', os.path.join(root, 'out')],
                                               paths[i:i + 25], root))
        verdict = {}
        for p in progs:
            rc_, text = alone[p['path']]
            parsed = jd.parse(text)
            errs = jd.errors_by_file(parsed)
            own = errs.get(p['path'], [])
            foreign = [f for f in errs if f != p['path']]
            verdict[p['path']] = bool(own)
            key = hashlib.sha1(p['text'].encode()).hexdigest()[:16]
            f = p['feats']
            nontriv = f.get('generic_classes', 0) > 0 and (f.get('lambdas', 0) + f.get('func_refs', 0)) > 0
            col.case(key=key + p['stage'], nontrivial=nontriv and p['expect_ok'],
                     sample=lambda p=p, own=own: {'stage': p['stage'], 'seed': p['key'].get('seed'),
                                                  'switches': p['key'].get('switches'), 'javac_errors': len(own),
                                                  'source_head': p['text'][:300]})
            col.feature('files_stage_' + p['stage'])
            if jd.crashed(parsed):
                col.violation('C02/javac-crash/%s' % p['stage'], {'stage': p['stage'], 'output': text[:600]},
                              p['key'], size=len(p['text']))
                continue
            if p['expect_ok'] and own:
                mk = message_key(own[0][1])
                col.violation('C02/javac-rejects/%s/%s%s' % (p['stage'], mk, '/handmade' if p.get('handmade') else ''),
                              {'stage': p['stage'], 'line': own[0][0], 'message': own[0][1], 'errors': len(own),
                               'source_line': _line(p['text'], own[0][0])},
                              p['key'], size=len(p['text']))
            if not p['expect_ok']:
                col.feature('overwritten_rejected' if own else 'overwritten_accepted(C04 territory)')
            if foreign:
                col.violation('C02/error-in-other-file-when-compiled-alone', {'files': foreign[:3]}, p['key'],
                              size=len(p['text']))
        col.add_extra('programs', len(progs))
        # batches
        import random
        rnd = random.Random(seed)
        for b in range(n_batches):
            size = rnd.randint(2, min(20, len(progs)))
            batch = rnd.sample(progs, size)
            rc_, text = jd.run_shell(['javac', '-nowarn', '-proc:none', '-d', os.path.join(root, 'outb%d' % b)] +
                                     [p['path'] for p in batch], timeout=900)
            parsed = jd.parse(text)
            errs = jd.errors_by_file(parsed)
            col.feature('batches')
            if jd.crashed(parsed):
                col.feature('batch_crashed')
                continue
            if parsed['summary'].get('error', 0) >= 100 or 'only showing the first' in text:
                # javac prints at most -Xmaxerrs (100) errors: later files' diagnostics are cut off
                col.feature('batch_truncated_at_maxerrs(not judged)')
                continue
            for p in batch:
                if not p['expect_ok']:
                    # the property speaks about valid programs; javac reports the errors of an ill-typed neighbour phase by phase
                    # (a flow error of one file is not reported while another file has an attribution error)
                    col.feature('batch_members_overwritten(not judged)')
                    continue
                col.add_extra('disagreements_checked', 1)
                inb = bool(errs.get(p['path']))
                if inb != verdict[p['path']]:
                    col.violation('C02/batch-verdict-differs/%s' % ('error-only-in-batch' if inb else 'error-only-alone'),
                                  {'stage': p['stage'], 'batch_size': size,
                                   'batch_stages': ''.join(q['stage'] for q in batch),
                                   'message': (errs.get(p['path']) or [(0, '')])[0][1]},
                                  {'batch': [q['key'] for q in batch], 'focus': batch.index(p)}, size=size * 1000)
            for f in errs:
                if f not in {q['path'] for q in batch}:
                    col.violation('C02/batch-error-for-unknown-file', {'file': f}, {'batch': [q['key'] for q in batch]},
                                  size=size * 1000)
            shutil.rmtree(os.path.join(root, 'outb%d' % b), ignore_errors=True)
    finally:
        shutil.rmtree(root, ignore_errors=True)


def _line(text, n):
    ls = text.split('\n')
    return ls[n - 1].strip()[:200] if 0 < n <= len(ls) else ''


def finish(tier, cov):
    return {'programs': cov.get('programs', 0), 'disagreements_checked': cov.get('disagreements_checked', 0)}


def regen_entry(key):
    lang = 'java'
    case = pg.regen({k: v for k, v in key.items() if k != 'stage'})
    if case.program is None:
        return None
    prog = case.program
    feats = pg.features(prog)
    stage = key.get('stage', 'G')
    seed = key.get('seed', 0)
    import random
    utils = boot._state['utils']
    if stage in ('E', 'O'):
        utils.random.r = random.Random(seed ^ 0x5bd1e995)
        pg.erase(prog, lang)
    if stage == 'O':
        pg.overwrite(prog, lang)
    return {'pkg': 'r' + stage.lower(), 'stage': stage, 'text': pg.translate(prog, lang, package='src.@PKG@'),
            'key': key, 'expect_ok': stage != 'O', 'feats': feats}


def replay(case, col):
    boot.init('java')
    if case.get('kind') == 'object-members':
        object_member_names(col)
        return
    if 'batch' in case:
        progs = [regen_entry(k) for k in case['batch']]
        progs = [p for p in progs if p]
        for i, p in enumerate(progs):
            p['pkg'] = 'r%03d' % i
        judge_programs(progs, col, n_batches=0, seed=1)
        # one batch with all of them
        judge_batch_once(progs, col)
        return
    p = regen_entry(case)
    if p:
        judge_programs([p], col, n_batches=0, seed=1)


def judge_batch_once(progs, col):
    root = os.path.realpath(tempfile.mkdtemp(prefix='verif_c02_'))
    try:
        for p in progs:
            p['path'] = write_program(root, p['pkg'], p['text'].replace('@PKG@', p['pkg']))
        alone = jd.compile_each_alone(['-nowarn', '-proc:none', '-d', os.path.join(root, 'out')],
                                      [p['path'] for p in progs], root)
        rc_, text = jd.run_shell(['javac', '-nowarn', '-proc:none', '-d', os.path.join(root, 'outb')] +
                                 [p['path'] for p in progs], timeout=900)
        errs = jd.errors_by_file(jd.parse(text))
        for p in progs:
            a = bool(jd.errors_by_file(jd.parse(alone[p['path']][1])).get(p['path']))
            b = bool(errs.get(p['path']))
            if a != b:
                col.violation('C02/batch-verdict-differs/%s' % ('error-only-in-batch' if b else 'error-only-alone'),
                              {'stage': p['stage']}, {'batch': [q['key'] for q in progs]}, size=len(progs) * 1000)
    finally:
        shutil.rmtree(root, ignore_errors=True)
