"""C19 — graph queries agree with their textbook definitions.

Domain: every digraph with self-loops on 1..4 labelled vertices (every vertex
a key, adjacency sets), every vertex / ordered pair (exhaustive); random
digraphs on 5..9 vertices drawn by Hypothesis; `dfs` is exercised on the
Edge-list form the type analysis builds, including targets that are not keys.
Oracle: own transitive closure (Floyd-Warshall), weak components by
union-find, own simple-path enumeration; cross-checked against networkx on a
sample in every run.  Non-termination is a step-budget verdict."""
import itertools
import sys

from vlib import boot
from vlib.steps import Budget, StepBudgetExceeded

LEVEL = 'exploration'
RULE = ('cases = (graph, query function, arguments); exhaustive over all digraphs with self-loops on <=4 '
        'labelled vertices (quick: all on <=3 plus a seeded slice of the 65536 on 4), Hypothesis-drawn digraphs on '
        '5..9 vertices, Edge-list graphs with non-key targets for dfs; a case is non-trivial when the graph has '
        '>=1 edge between distinct vertices; evaluations = calls made; distinct = distinct (graph, form, function)')
ASSUMPTIONS = ['node graphs have every vertex as a key (find_sources raises KeyError otherwise; no caller builds such graphs)',
               'definitions: reachable = path of length >= 0; sources = in-degree-0 vertices; paths are simple paths']
MIN_NONTRIVIAL = {'quick': 1000, 'thorough': 100000}
NSHARDS = 16


def shards(tier):
    return [{'part': k} for k in range(NSHARDS)]


# ---------------------------------------------------------------- reference
def closure(n, adj):
    """reach[i][j] = path of length >= 1 from i to j."""
    r = [[(j in adj[i]) for j in range(n)] for i in range(n)]
    for k in range(n):
        rk = r[k]
        for i in range(n):
            if r[i][k]:
                ri = r[i]
                for j in range(n):
                    if rk[j]:
                        ri[j] = True
    return r


def components(n, adj):
    comp = list(range(n))

    def find(x):
        while comp[x] != x:
            comp[x] = comp[comp[x]]
            x = comp[x]
        return x
    for i in range(n):
        for j in adj[i]:
            a, b = find(i), find(j)
            if a != b:
                comp[a] = b
    return [find(i) for i in range(n)]


def simple_paths(adj, s):
    out = []

    def go(path, on):
        out.append(tuple(path))
        for j in sorted(adj[path[-1]]):
            if j not in on:
                on.add(j)
                path.append(j)
                go(path, on)
                path.pop()
                on.discard(j)
    go([s], {s})
    return out


class Ref:
    def __init__(self, n, adj):
        self.n, self.adj = n, adj
        self.r = closure(n, adj)
        self.comp = components(n, adj)
        self.indeg = [sum(1 for i in range(n) if j in adj[i]) for j in range(n)]

    def reach0(self, s, d):
        return s == d or self.r[s][d]


# ---------------------------------------------------------------- judge
_gu = None
_budget = None
_dead = {}


def gu():
    global _gu, _budget
    if _gu is None:
        boot.init_types_only()
        from src import graph_utils
        _gu = graph_utils
        _budget = Budget(('src/graph_utils.py',))
    return _gu


def lab(i):
    return 'v%d' % i


def build(n, adj, form):
    if form == 'set':
        return {lab(i): {lab(j) for j in adj[i]} for i in range(n)}
    return {lab(i): [lab(j) for j in sorted(adj[i])] for i in range(n)}


def call(fn, limit, *args):
    try:
        res, steps = _budget.run(limit, fn, *args)
        return ('ok', res, steps)
    except StepBudgetExceeded:
        return ('budget', None, limit)
    except RecursionError:
        return ('recursion', None, 0)
    except Exception as e:  # the functions are total on the domain
        return ('exc:' + type(e).__name__, None, 0)


def judge_graph(n, adj, col, form='set', pairs=True, tag='exh'):
    """Run every query on one graph; record violations."""
    g = gu()
    ref = Ref(n, adj)
    G = build(n, adj, form)
    nedges = sum(len(a) for a in adj)
    nontriv = any(j != i for i in range(n) for j in adj[i])
    case_graph = {lab(i): sorted(lab(j) for j in adj[i]) for i in range(n)}
    size = n * 100 + nedges
    npaths_bound = 1

    def bad(fname, args, got, want, kind):
        col.violation('C19/%s/%s' % (fname, kind),
                      {'function': fname, 'args': args, 'got': _j(got), 'want': _j(want)},
                      {'kind': 'node', 'function': fname, 'graph': case_graph, 'form': form, 'args': args},
                      size=size)

    def check(fname, args, want, norm=lambda x: x, kindf=None, limit=None):
        lim = limit or (2000 + 200 * (n + 1) * (n + 1))
        if _dead.get(fname, 0) >= 25:
            col.feature('calls_skipped_after_25_nonreturns:' + fname)
            return
        st, got, steps = call(getattr(g, fname), lim, G, *[lab(a) for a in args])
        if st in ('budget', 'recursion'):
            _dead[fname] = _dead.get(fname, 0) + 1
        col.case(key=(tag, n, _enc(adj), form, fname), nontrivial=nontriv,
                 sample={'graph': case_graph, 'query': fname, 'args': [lab(a) for a in args],
                         'answer': _j(got) if st == 'ok' else st})
        col.max_extra('max_steps_n%d' % n, steps)
        if st != 'ok':
            bad(fname, [lab(a) for a in args], st, _j(want),
                'does-not-return' if st in ('budget', 'recursion') else 'raises')
            return
        try:
            gotn = norm(got)
        except Exception:
            gotn = ('unnormalisable', repr(got)[:100])
        if gotn != want:
            kind = kindf(gotn, want) if kindf else 'wrong-answer'
            bad(fname, [lab(a) for a in args], gotn, want, kind)

    def setdiff_kind(got, want):
        if isinstance(got, (set, frozenset)) and isinstance(want, (set, frozenset)):
            if got - want and want - got:
                return 'extra-and-missing'
            return 'extra' if got - want else 'missing'
        return 'wrong-answer'

    L = {lab(i) for i in range(n)}
    if pairs:
        for s in range(n):
            for d in range(n):
                check('reachable', (s, d), ref.reach0(s, d), bool,
                      lambda g_, w: 'false-positive' if g_ else 'false-negative')
                check('bi_reachable', (s, d), ref.reach0(s, d) or ref.reach0(d, s), bool,
                      lambda g_, w: 'false-positive' if g_ else 'false-negative')
                check('connected', (s, d), ref.comp[s] == ref.comp[d], bool,
                      lambda g_, w: 'false-positive' if g_ else 'false-negative')
    for v in range(n):
        desc = {lab(j) for j in range(n) if ref.reach0(v, j)}
        paths = simple_paths(adj, v)
        plimit = 2000 + 60 * (n + 2) * (len(paths) + 2)
        check('find_all_reachable', (v,), desc, set, setdiff_kind, limit=plimit * (len(paths) + 2) // 4 + plimit)
        check('find_all_bi_reachable', (v,),
              {lab(j) for j in range(n) if ref.reach0(v, j) or ref.reach0(j, v)}, set, setdiff_kind)
        check('find_all_connected', (v,),
              {lab(j) for j in range(n) if ref.comp[j] == ref.comp[v]}, set, setdiff_kind,
              limit=2000 + 400 * (n + 1) ** 3)
        srcs = {lab(j) for j in range(n) if ref.indeg[j] == 0 and ref.reach0(j, v)}

        def norm_sources(x):
            x = list(x)
            if len(set(x)) != len(x):
                return ('duplicates', sorted(x))
            return set(x)
        check('find_sources', (v,), srcs, norm_sources, setdiff_kind)
        want_paths = sorted(tuple(lab(i) for i in p) for p in paths)

        def norm_paths(x):
            return sorted(tuple(p) for p in x)

        def paths_kind(got, want):
            gs, ws = set(got), set(want)
            if len(gs) != len(got):
                return 'duplicate-path'
            if gs - ws:
                return 'non-path-or-non-simple'
            return 'missing-path'
        check('find_all_paths', (v,), want_paths, norm_paths, paths_kind, limit=plimit)
        pset = set(paths)
        maximal = sorted(tuple(lab(i) for i in p) for p in paths
                         if not any(len(q) > len(p) and q[:len(p)] == p for q in pset))

        def longest_kind(got, want):
            gs, ws = set(got), set(want)
            if len(gs) != len(got):
                return 'duplicate-path'
            if gs - ws:
                allp = set(want_paths)
                return 'non-maximal-path-kept' if (gs - ws) <= allp else 'non-path'
            return 'maximal-path-dropped'
        check('find_longest_paths', (v,), maximal, norm_paths, longest_kind,
              limit=plimit * (len(paths) + 2) // 4 + plimit)


def judge_dfs(n, adj, extra_targets, col, tag='dfs'):
    """dfs on the Edge-list form; vertices >= n in `extra_targets` are
    targets that are not keys (type nodes in the real analysis)."""
    g = gu()
    from src.analysis.type_dependency_analysis import Edge
    m = n + extra_targets
    full = [set(a) for a in adj] + [set() for _ in range(extra_targets)]
    ref = Ref(m, full)
    G = {}
    for i in range(n):
        G[lab(i)] = [Edge(lab(j), (i + j) % 2) for j in sorted(adj[i])]
    case_graph = {lab(i): sorted(lab(j) for j in adj[i]) for i in range(n)}
    nontriv = any(j != i for i in range(n) for j in adj[i])
    for s in range(n):
        want = {lab(j) for j in range(m) if ref.r[s][j] and j != s}
        st, got, steps = call(g.dfs, 2000 + 200 * (m + 1) ** 2, G, lab(s))
        col.case(key=(tag, n, extra_targets, _enc(adj)), nontrivial=nontriv,
                 sample={'edge_graph': case_graph, 'query': 'dfs', 'source': lab(s),
                         'answer': sorted(got) if st == 'ok' else st})
        if st != 'ok':
            kind = 'does-not-return' if st in ('budget', 'recursion') else 'raises'
            gotn = st
        else:
            gotn = set(got)
            if gotn == want:
                continue
            kind = 'extra' if gotn - want and not want - gotn else ('missing' if want - gotn and not gotn - want else 'extra-and-missing')
        col.violation('C19/dfs/%s' % kind, {'function': 'dfs', 'source': lab(s), 'got': _j(gotn), 'want': _j(want)},
                      {'kind': 'edge', 'graph': case_graph, 'extra_targets': extra_targets, 'source': lab(s)},
                      size=m * 100 + sum(len(a) for a in adj))


def _enc(adj):
    return ';'.join(','.join(map(str, sorted(a))) for a in adj)


def _j(x):
    if isinstance(x, (set, frozenset)):
        return sorted(x)
    return x


def graph_from_bits(n, bits):
    return [{j for j in range(n) if bits >> (i * n + j) & 1} for i in range(n)]


def nx_crosscheck(col, graphs):
    """Self-test of the oracle against networkx on a sample of graphs."""
    try:
        import networkx as nx
    except Exception:
        col.set_extra('networkx_crosscheck', 'networkx unavailable')
        return
    bad = 0
    for n, adj in graphs:
        D = nx.DiGraph()
        D.add_nodes_from(range(n))
        D.add_edges_from((i, j) for i in range(n) for j in adj[i])
        ref = Ref(n, adj)
        for s in range(n):
            want = set(nx.descendants(D, s))
            got = {j for j in range(n) if ref.r[s][j] and j != s}
            if want != got:
                bad += 1
            wcc = nx.node_connected_component(D.to_undirected(), s)
            if wcc != {j for j in range(n) if ref.comp[j] == ref.comp[s]}:
                bad += 1
            sp = {tuple(p) for t in range(n) if t != s for p in nx.all_simple_paths(D, s, t)} | {(s,)}
            if sp != set(simple_paths(adj, s)):
                bad += 1
    col.add_extra('oracle_crosschecked_graphs', len(graphs))
    if bad:
        raise RuntimeError('reference oracle disagrees with networkx on %d queries (harness bug)' % bad)


def run_shard(spec, col):
    gu()
    k = spec['part']
    tier = col.tier
    seed = col.seed
    cross = []
    # exhaustive n <= 3 in both tiers (all forms), n = 4: full in thorough, seeded slice in quick
    idx = 0
    for n in (1, 2, 3):
        for bits in range(1 << (n * n)):
            idx += 1
            if idx % NSHARDS != k:
                continue
            adj = graph_from_bits(n, bits)
            judge_graph(n, adj, col, form='set')
            judge_graph(n, adj, col, form='list', tag='exh-list')
            for extra in (0, 1):
                adjx = [set(a) for a in adj]
                if extra:
                    # vertex i additionally points at the non-key target when bit parity says so
                    for i in range(n):
                        if (bits >> i) & 1:
                            adjx[i].add(n)
                judge_dfs(n, adjx, extra, col)
            if len(cross) < 40:
                cross.append((n, adj))
    n = 4
    total = 1 << 16
    if tier == 'thorough':
        sel = range(k, total, NSHARDS)
    else:
        import random
        rnd = random.Random(seed * 7919 + 13)
        pick = sorted(rnd.sample(range(total), 10000))
        sel = [b for i, b in enumerate(pick) if i % NSHARDS == k]
        # the structured corner cases are always there: chains, cycles, complete graph
        if k == 0:
            chain = sum(1 << (i * 4 + i + 1) for i in range(3))
            cyc = chain | (1 << (3 * 4 + 0))
            sel = sorted(set(sel) | {0, total - 1, chain, cyc, chain | (1 << 2)})
    for bits in sel:
        adj = graph_from_bits(n, bits)
        judge_graph(n, adj, col, form='set')
        if bits % 4 == 0:
            adjx = [set(a) for a in adj]
            adjx[bits % 3].add(n)
            judge_dfs(n, adjx, 1, col)
        else:
            judge_dfs(n, adj, 0, col)
        if len(cross) < 80:
            cross.append((n, adj))
    col.set_extra('exhaustive_up_to_vertices', 4 if tier == 'thorough' else 3)
    # random larger graphs
    from hypothesis import strategies as st
    from vlib import hyp

    @st.composite
    def graphs(draw):
        n = draw(st.integers(5, 9))
        # sparse enough that path enumeration stays small: expected out-degree <= 1.6
        max_edges = draw(st.integers(0, int(1.6 * n)))
        pairs = draw(st.lists(st.tuples(st.integers(0, n - 1), st.integers(0, n - 1)),
                              max_size=max_edges, unique=True))
        adj = [set() for _ in range(n)]
        for i, j in pairs:
            adj[i].add(j)
        return n, adj

    def one(case):
        n, adj = case
        if len(simple_paths(adj, 0)) > 3000:
            col.feature('discarded_oversize')
            return
        judge_graph(n, adj, col, form='set', tag='rnd')
        judge_dfs(n, adj, 0, col, tag='rnd-dfs')
        col.feature('random_graphs')
        if sum(len(a) for a in adj) >= n:
            col.feature('random_graphs_with_cycle_potential')
        if len(cross) < 100:
            cross.append((n, adj))

    nrand = (2000 if tier == 'quick' else 40000) // NSHARDS
    hyp.explore(graphs(), one, nrand, col.shard_seed())
    nx_crosscheck(col, cross)


def finish(tier, cov):
    return {'exhaustive': tier == 'thorough',
            'exhaustive_note': 'all digraphs with self-loops on <=%d labelled vertices, every vertex and ordered pair'
                               % (4 if tier == 'thorough' else 3)}


def replay(case, col):
    gu()
    labels = sorted(case['graph'])
    ix = {l: i for i, l in enumerate(labels)}
    if case['kind'] == 'edge':
        n = len(labels)
        extra = case.get('extra_targets', 0)
        for a in case['graph'].values():
            for t in a:
                if t not in ix:
                    ix[t] = len(ix)
        adj = [{ix[t] for t in case['graph'][l]} for l in labels]
        judge_dfs(n, adj, len(ix) - n, col, tag='replay')
        return
    adj = [{ix[t] for t in case['graph'][l]} for l in labels]
    judge_graph(len(labels), adj, col, form=case.get('form', 'set'), tag='replay')
