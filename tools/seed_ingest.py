#!/venv/bin/python
"""Confirm a seeded change produced by an independent sub-agent and keep it
under seeded/<name>/.

usage: seed_ingest.py <PROPERTY> <dir with patch.diff demo.py meta.json> <name>
Confirms in a scratch copy of /repo HEAD (outside /repo and /verif, removed
afterwards): the patch applies; the pinned suite passes with it; demo.py exits
non-zero with it and 0 without it.  Then runs the property's quick check
against the patched copy and records whether it is caught."""
import json
import os
import shutil
import subprocess
import sys
import tempfile

ROOT = os.path.dirname(os.path.dirname(os.path.abspath(__file__)))


def sh(cmd, cwd=None, env=None, timeout=3600):
    p = subprocess.run(cmd, shell=True, cwd=cwd, env=env, stdout=subprocess.PIPE, stderr=subprocess.STDOUT, text=True,
                       timeout=timeout)
    return p.returncode, p.stdout


def main():
    pid, src, name = sys.argv[1].upper(), sys.argv[2], sys.argv[3]
    checks = sys.argv[4].upper().split(',') if len(sys.argv) > 4 else [pid]
    patch = os.path.join(src, 'patch.diff')
    demo = os.path.join(src, 'demo.py')
    ran = []
    scratch = tempfile.mkdtemp(prefix='verif_seed_')
    try:
        sh('git -C /repo archive HEAD | tar -x -C %s' % scratch)
        rc, out = sh('/venv/bin/python %s' % demo, cwd=scratch, timeout=600)
        ran.append('unchanged tree: demo.py exit %d' % rc)
        ok_clean = rc == 0
        rc, out = sh('patch -p1 -s < %s' % patch, cwd=scratch)
        if rc != 0:
            print('patch does not apply:', out[-400:])
            return 1
        rc, out = sh('/venv/bin/python -m pytest -q -p no:cacheprovider tests 2>&1 | tail -1', cwd=scratch)
        suite = out.strip()
        ran.append('patched tree: pytest -> ' + suite)
        suite_ok = ' passed' in suite and 'failed' not in suite and 'error' not in suite
        rc, out = sh('/venv/bin/python %s' % demo, cwd=scratch, timeout=600)
        ran.append('patched tree: demo.py exit %d (%s)' % (rc, out.strip().split('\n')[-1][:160]))
        ok_break = rc != 0
        print('\n'.join(ran))
        if not (ok_clean and suite_ok and ok_break):
            print('NOT CONFIRMED: clean=%s suite=%s breaks=%s' % (ok_clean, suite_ok, ok_break))
            return 1
        results = {}
        for chk in checks:
            env = dict(os.environ, VERIF_REPO=scratch, VERIF_SCRATCH=os.path.join(scratch, '.vscratch'))
            r = subprocess.run([os.path.join(ROOT, 'vcheck'), chk, 'quick', '--no-evidence'], cwd=ROOT, env=env,
                               stdout=subprocess.PIPE, stderr=subprocess.STDOUT, text=True)
            viol = [l for l in r.stdout.splitlines() if l.startswith('VIOLATION')]
            sigs = sorted({l.split('signature=')[1].split(' ')[0] for l in viol if 'signature=' in l})
            results[chk] = {'caught': r.returncode == 1 and bool(viol), 'exit': r.returncode, 'signatures': sigs[:5]}
            print('check %s quick on the patched tree: exit %d %s %s' % (chk, r.returncode,
                                                                         'CAUGHT' if results[chk]['caught'] else 'MISSED', sigs[:3]))
            ran.append('vcheck %s quick (VERIF_REPO=patched copy): exit %d, %s' % (chk, r.returncode, sigs[:3]))
        dst = os.path.join(ROOT, 'seeded', name)
        os.makedirs(dst, exist_ok=True)
        shutil.copy(patch, os.path.join(dst, 'patch.diff'))
        shutil.copy(demo, os.path.join(dst, 'demo.py'))
        meta = {}
        mp = os.path.join(src, 'meta.json')
        if os.path.exists(mp):
            try:
                meta = json.load(open(mp))
            except Exception:
                meta = {'raw': open(mp).read()[:2000]}
        meta.update({'property': pid, 'confirmed_by_me': ran, 'checks': results,
                     'origin': 'independent sub-agent given only the property text and its own scratch worktree'})
        json.dump(meta, open(os.path.join(dst, 'meta.json'), 'w'), indent=1)
        return 0
    finally:
        shutil.rmtree(scratch, ignore_errors=True)


if __name__ == '__main__':
    sys.exit(main())
