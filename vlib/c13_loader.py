"""Loader side of C13's other-process leg: reads saved programs in a fresh interpreter whose PYTHONHASHSEED differs
from the writer's (the situation of `hephaestus.py --replay`) and translates them.  `python -m vlib.c13_loader job.json`."""
import json
import sys


def main():
    with open(sys.argv[1]) as f:
        job = json.load(f)
    from vlib import boot, pg
    boot.init(job['lang'])
    from src import utils
    out = []
    for e in job['entries']:
        texts = {}
        try:
            q = utils.load_program(e['path'])
        except Exception as ex:
            out.append({'load': 'EXC:' + type(ex).__name__})
            continue
        for l in boot.LANGS:
            try:
                texts[l] = pg.translate(q, l)
            except RecursionError:
                texts[l] = 'EXC:RecursionError'
            except Exception as ex:
                texts[l] = 'EXC:' + type(ex).__name__
        out.append(texts)
    with open(job['out'], 'w') as f:
        json.dump(out, f)


if __name__ == '__main__':
    main()
