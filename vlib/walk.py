"""Generic object-graph walker over IR programs (attributes, lists, dicts,
sets, tuples); visits every object once and reports a short access path."""

PRIMS = (int, float, str, bool, type(None), bytes)


def reachable(root, skip_attr=('_verif_id', '_verif_site'), max_objects=2000000, prune=None):
    """Yield (obj, path) for every instance object reachable from root.
    prune(obj, attr) -> True to skip that attribute of obj."""
    seen = set()
    stack = [(root, '')]
    n = 0
    while stack:
        o, path = stack.pop()
        if isinstance(o, PRIMS):
            continue
        i = id(o)
        if i in seen:
            continue
        seen.add(i)
        n += 1
        if n > max_objects:
            return
        if isinstance(o, (list, tuple)):
            for j, x in enumerate(o):
                if not isinstance(x, PRIMS):
                    stack.append((x, '%s[%d]' % (path, j)))
            continue
        if isinstance(o, dict):
            for j, (k, v) in enumerate(o.items()):
                if not isinstance(k, PRIMS):
                    stack.append((k, '%s{key%d}' % (path, j)))
                if not isinstance(v, PRIMS):
                    stack.append((v, '%s{%s}' % (path, k if isinstance(k, (str, int)) else j)))
            continue
        if isinstance(o, (set, frozenset)):
            for j, x in enumerate(sorted(o, key=lambda z: repr(z))):
                if not isinstance(x, PRIMS):
                    stack.append((x, '%s{elem%d}' % (path, j)))
            continue
        d = getattr(o, '__dict__', None)
        if d is None:
            continue
        if isinstance(o, type) or callable(o) and not hasattr(o, 'children'):
            # functions, classes, bound methods
            if isinstance(o, type) or type(o).__name__ in ('function', 'method', 'builtin_function_or_method'):
                continue
        yield o, path
        for k, v in d.items():
            if k in skip_attr or isinstance(v, PRIMS):
                continue
            if prune is not None and prune(o, k):
                continue
            stack.append((v, path + '.' + k))
