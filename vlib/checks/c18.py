"""C18 — the pipeline never fails internally and always terminates.

Pipelines generate -> translate -> erase -> translate -> overwrite -> translate
are run over Hypothesis-drawn (seed, switches, limits) in seed mode and over
Hypothesis-owned choice sequences in tape mode (small limits, where rare
generator paths are dense and failures shrink to a minimal program).
Oracle: no exception of any type escapes a stage; bounded work measured by
counters (generator depth counter, generate_expr nesting, AST depth) as
functions of the configured max_depth.  Crash buckets are keyed by
(stage, exception type, innermost repository frame)."""
import hashlib

from hypothesis import strategies as st

from vlib import boot, hyp, pg

LEVEL = 'exploration'
RULE = ('case = one pipeline (language, seed or Hypothesis-owned choice tape, 4 switches, limits) run through '
        'generate/translate/erase/translate/overwrite/translate; seed mode at default and reduced limits, tape mode at small '
        'limits (max_depth 1-4, <=4 top-level declarations); non-trivial = the pipeline reached the overwrite stage with a '
        'program of >= 30 AST nodes; distinct = distinct program text (sha1)')
ASSUMPTIONS = [
    'termination is checked as bounded work on generated cases (counters), not as liveness',
    'cases that exceed the generate_expr step budget (20000 calls) are discarded as oversize and counted, never violations',
    'depth bounds: generator depth counter <= 2*max_depth+40, generate_expr nesting <= 4*max_depth+24, AST depth <= 12*max_depth+40 '
    '(constants calibrated with >= 2x margin over the worst slack seen on the unchanged tree)',
]
MIN_NONTRIVIAL = {'quick': 150, 'thorough': 3000}
NSHARDS = 16
HARD_TIMEOUT = {'quick': 1500, 'thorough': 4 * 3600}
BUDGET = 20000


def shards(tier):
    return [{'k': k, 'lang': boot.LANGS[k % 4]} for k in range(NSHARDS)]


def bucket(err):
    fr = err['frames'][-1] if err.get('frames') else '?'
    parts = fr.split(':')
    site = ':'.join(parts[:2]) if len(parts) >= 2 else fr
    return 'C18/crash/%s/%s/%s' % (err['stage'], err['type'], site)


def run_pipeline(case, col, judge=True):
    """Runs the later stages on case.program; returns list of (signature, detail)."""
    out = []
    lang = case.lang
    md = case.limits.get('max_depth', 6)
    c = case.counters
    if case.error:
        out.append((bucket(case.error), case.error))
        return out, None
    # the depth bounds are judged on aborted (oversize) cases too: the counters are valid up to the abort
    if c["max_generator_depth"] > 2 * md + 40:
        out.append(('C18/work/generator-depth-exceeds-2d+40', dict(c, max_depth=md)))
    if c['max_generate_expr_nesting'] > 4 * md + 24:
        out.append(('C18/work/generate_expr-nesting-exceeds-4d+24', dict(c, max_depth=md)))
    if case.oversize:
        return out, None
    prog = case.program
    texts = {}
    info = {'reached': 'G'}
    try:
        f = pg.features(prog)
    except RecursionError as e:
        out.append(('C18/work/ast-too-deep-to-walk', {'msg': str(e)[:100]}))
        return out, info
    info['features'] = f
    if f.get('max_ast_depth', 0) > 12 * md + 40:
        out.append(('C18/work/ast-depth-exceeds-12d+40', {'ast_depth': f.get('max_ast_depth'), 'max_depth': md}))
    # the search bound is an option of the mutation: small values make the bound itself reachable in small programs
    mc = [25, 200, pg.ERASURE_MAX_COMBINATIONS][(case.counters.get('generate_expr_calls', 0)) % 3]
    info['mc'] = mc
    stages = [('translate-G', lambda: texts.__setitem__('G', pg.translate(prog, lang))),
              ('erase', lambda: (info.__setitem__('te', pg.erase(prog, lang, options={'timeout': 600, 'max_combinations': mc}).is_transformed),
                                 info.__setitem__('comb', pg.last_erasure.get('combinations', 0)))),
              ('translate-E', lambda: texts.__setitem__('E', pg.translate(prog, lang))),
              ('overwrite', lambda: info.__setitem__('to', pg.overwrite(prog, lang).is_transformed)),
              ('translate-O', lambda: texts.__setitem__('O', pg.translate(prog, lang)))]
    for name, fn in stages:
        try:
            fn()
            info['reached'] = name
        except (KeyboardInterrupt, SystemExit):
            raise
        except pg.ErasureUnbounded as e:
            out.append(('C18/work/erasure-search-exceeds-max_combinations', {'msg': str(e)[:200]}))
            break
        except (pg.Oversize, pg.ErasureBudget):
            info['oversize'] = True
            return out, info
        except BaseException as e:
            if type(e).__module__.startswith('hypothesis'):
                raise
            err = pg.stage_error(name, e)
            out.append((bucket(err), err))
            break
    info['texts'] = texts
    return out, info


def account(case, viols, info, col):
    key = None
    nontriv = False
    if info and info.get('texts', {}).get('G') is not None:
        key = hashlib.sha1(info['texts']['G'].encode()).hexdigest()[:16]
        nontriv = info['reached'] == 'translate-O' and info.get('features', {}).get('nodes', 0) >= 30
    col.case(key=key or repr(case.key())[:200], nontrivial=nontriv,
             sample=lambda: {'lang': case.lang, 'mode': case.mode, 'seed': case.seed, 'switches': case.switches,
                             'limits': case.limits, 'counters': case.counters,
                             'erased': info.get('te'), 'injected': info.get('to'),
                             'program_head': info['texts']['G'][:400]})
    col.feature('pipelines_' + case.mode)
    if case.oversize or (info and info.get('oversize')):
        col.feature('discarded_oversize')
    if info:
        col.feature('reached_' + info['reached'])
        if info.get('te'):
            col.feature('erasure_transformed')
        if info.get('to'):
            col.feature('overwrite_injected')
        md = case.limits.get('max_depth', 6)
        col.max_extra('max_slack_generator_depth_minus_2d', case.counters['max_generator_depth'] - 2 * md)
        col.max_extra('max_slack_nesting_minus_4d', case.counters['max_generate_expr_nesting'] - 4 * md)
        col.max_extra('max_slack_ast_depth_minus_12d', info.get('features', {}).get('max_ast_depth', 0) - 12 * md)
        col.max_extra('max_generate_expr_calls', case.counters['generate_expr_calls'])
        col.max_extra('max_erasure_combinations_drawn_for_one_function', info.get('comb', 0) or 0)
        if (info.get('comb', 0) or 0) > info.get('mc', 10 ** 9):
            col.feature('erasure_search_reached_max_combinations')
    for sig, detail in viols:
        size = len(case.tape) if case.tape else 100000 + case.counters.get('generate_expr_calls', 0)
        col.violation(sig, detail, case.key(), size=size)


def handmade_leg(lang, col, n):
    """Hand-shaped programs (vlib/handprog.py): shapes the mutations special-case and the generator produces rarely
    (explicit type arguments of generic calls, recursive functions, nested vararg functions, ...) through the stages
    after generation."""
    from vlib import handprog

    def one(x):
        prog, labels = x
        case = pg.Case(lang, 'handmade', 0, (), {})
        case.program = prog
        case.counters = {'generate_expr_calls': len(labels), 'max_generator_depth': 0, 'max_generate_expr_nesting': 0}
        case.key = lambda: {'lang': lang, 'handmade': labels, 'note': 'see vlib/handprog.py'}
        boot.reset_case(seed=len(labels))
        viols, info = run_pipeline(case, col)
        key = hashlib.sha1(info['texts']['G'].encode()).hexdigest()[:16] if info and info.get('texts', {}).get('G') else repr(labels)
        col.case(key=('hand', key), nontrivial=bool(info) and info.get('reached') == 'translate-O',
                 sample=lambda: {'lang': lang, 'handmade_units': labels})
        col.feature('pipelines_handmade')
        if info and info.get('to'):
            col.feature('overwrite_injected_handmade')
        for sig, detail in viols:
            col.violation(sig + '/handmade', dict(detail, units=labels), case.key(), size=len(labels))
    hyp.explore(handprog.programs(lang), one, n, col.shard_seed('hand'))


def session_leg(lang, col, n, pool_words=2000):
    """One long session in one process, as `hephaestus -i N` / a pool worker: n programs generated one after the other
    (word pool reset before each, as gen_program does), from a thinned identifier pool so that state leaking from one
    program to the next (a pool that is not restored, a cache that grows) shows within n programs.  A failing program
    is regenerated from the same seed with a fresh copy of the thinned pool: only a failure that does not reproduce in
    the fresh state is a violation (history-dependent); one that reproduces is the pool being too small (discarded)."""
    import random
    utils = boot._state['utils']
    full = utils.random.INITIAL_WORDS
    rnd = random.Random(col.shard_seed('session'))
    thin = sorted(full)[::max(1, len(full) // pool_words)]
    try:
        utils.random.INITIAL_WORDS = set(thin)
        for i in range(n):
            seed = rnd.randrange(2 ** 31)
            case = pg.gen_case(lang, 'seed', seed, (), {}, budget=BUDGET)
            col.feature('session_programs')
            if case.error is None:
                continue
            utils.random.INITIAL_WORDS = set(thin)
            again = pg.gen_case(lang, 'seed', seed, (), {}, budget=BUDGET)
            if again.error is not None:
                col.feature('session_program_fails_in_fresh_state_too(discarded)')
                continue
            col.violation('C18/session/%s-after-%s-programs' % (case.error['type'], 'few' if i < 10 else 'many'),
                          dict(case.error, programs_before=i, pool_words=len(thin)),
                          {'lang': lang, 'session': {'seed': col.shard_seed('session'), 'n': n, 'pool_words': pool_words}},
                          size=i)
            break
    finally:
        utils.random.INITIAL_WORDS = full
        utils.random.reset_word_pool()


def run_shard(spec, col):
    lang = spec['lang']
    boot.init(lang)
    quick = col.tier == 'quick'
    handmade_leg(lang, col, 40 if quick else 1500)
    session_leg(lang, col, 22 if quick else 400)
    n_seed = 14 if quick else 400
    n_tape = 50 if quick else 1500

    def seed_case(x):
        seed, (sw, limits) = x
        case = pg.gen_case(lang, 'seed', seed, sw, limits, budget=BUDGET)
        viols, info = run_pipeline(case, col)
        account(case, viols, info, col)
    hyp.explore(st.tuples(st.integers(0, 2 ** 31 - 1), pg.config_strategy()), seed_case, n_seed,
                col.shard_seed('seed'))

    tape_strategy = st.tuples(st.data(), pg.config_strategy(small=True))
    seen_tape_sigs = {}

    def tape_case(x):
        data, (sw, limits) = x
        case = pg.gen_case(lang, 'tape', 0, sw, limits, data=data, budget=4000)
        viols, info = run_pipeline(case, col)
        account(case, viols, info, col)
        for sig, _ in viols:
            seen_tape_sigs.setdefault(sig, 0)
            seen_tape_sigs[sig] += 1
    hyp.explore(tape_strategy, tape_case, n_tape, col.shard_seed('tape'))

    # shrink one witness per crash bucket found in tape mode (bounded)
    for sig in sorted(seen_tape_sigs)[:3]:
        best = {}

        def failing(x, sig=sig):
            data, (sw, limits) = x
            case = pg.gen_case(lang, 'tape', 0, sw, limits, data=data, budget=4000)
            viols, info = run_pipeline(case, col, judge=False)
            hit = [v for v in viols if v[0] == sig]
            if hit:
                if 'case' not in best or len(case.tape) <= len(best['case'].tape):
                    best['case'], best['detail'] = case, hit[0][1]
                return True
            return False
        hyp.minimize(tape_strategy, failing, col.shard_seed('tape'), max_examples=n_tape + 50)
        if 'case' in best:
            col.violation(sig, best['detail'], best['case'].key(), size=len(best['case'].tape))
            col.feature('shrunk_witnesses')


def replay(key, col):
    boot.init(key['lang'])
    if 'session' in key:
        ss = key['session']
        col.shard_seed = lambda tag='': ss['seed']
        return session_leg(key['lang'], col, ss['n'], ss['pool_words'])
    if 'handmade' in key:
        col.feature('handmade_witness_not_replayable_by_key(rerun the check)')
        return
    case = pg.regen(key, budget=BUDGET)
    viols, info = run_pipeline(case, col)
    account(case, viols, info, col)
