"""C03 — type erasure only removes inferable type information.

Every generated program (4 languages) is mutated by the real TypeErasure
(once or twice).  Oracle:
 (a) structural diff before/after is inside the whitelist: a local variable's
     declared type -> None, a function's declared return type -> None, the
     inferable flag of a constructor call's type / a generic call False ->
     True; every other node, name, modifier and recorded type is identical
     (the analysis cache FunctionCall.type_parameters is the only attribute
     ignored: no translator reads it);
 (b) the reference checker in *inference mode* (each removed annotation is
     replaced by what a compiler infers from initialiser, body, constructor
     arguments and expected type; an undetermined type parameter gets what
     the target language's compiler gives it) finds the program well-typed;
 (c) for Java, javac accepts the erased translation (shared with C02);
 other subsets: the mutation picks *one* random feasible subset of the
 omittable nodes per function; `OTHER_SUBSETS` further independent erasures of
 deep copies of the same program (other RNG seeds, hence other subsets) are
 judged the same way, and the set of distinct erased texts is counted."""
import copy

from vlib import boot, mutdiff, pg, progcheck, rc

LEVEL = 'exploration'
RULE = ('case = (generated program, RNG seed) mutated by TypeErasure once and a second time; non-trivial = at least one real '
        'annotation was removed; distinct = distinct (program text, erased text); evidence counts removed annotations per kind '
        'and the positions judged in inference mode')
ASSUMPTIONS = [
    '"local variables" is read as VariableDeclaration nodes as opposed to fields and parameters: top-level vals are erased too '
    '(visit_func_decl merges the global type graph) - noted, not alarmed',
    'inference model of RC: variables from initialisers, function results from bodies (fixpoint over 3 passes), constructor / generic '
    'call type arguments by first-order matching against argument types and the expected type; undetermined parameters: '
    'Java/Groovy declared bound else Object, Scala Nothing, Kotlin an error',
    'kotlinc / groovyc / scalac are not installed: for those languages RC is the only judge of (b)',
]
MIN_NONTRIVIAL = {'quick': 150, 'thorough': 4000}
NSHARDS = 16
OTHER_SUBSETS = {'quick': 2, 'thorough': 6}
HARD_TIMEOUT = {'quick': 1800, 'thorough': 5 * 3600}


def shards(tier):
    return [{'k': k, 'lang': boot.LANGS[k % 4]} for k in range(NSHARDS)]


def classify_slots(slots):
    """-> (allowed histogram, violations)"""
    hist = {}
    viols = []
    for s in slots:
        owner, attr = s['owner'], s['attr']
        old, new = s['old'], s['new']
        ok = False
        if owner == 'VariableDeclaration' and attr == 'var_type':
            ok = new[0] is None and old[0] is not None
            kind = 'variable-type-removed'
        elif owner == 'FunctionDeclaration' and attr == 'ret_type':
            ok = new[0] is None and old[0] is not None
            kind = 'return-type-removed'
        elif owner == 'New' and attr == 'class_type':
            ok = old[0] == new[0] and old[1] is False and new[1] is True
            kind = 'constructor-type-args-inferable'
        elif owner == 'FunctionCall' and attr == '_can_infer_type_args':
            ok = old is False and new is True
            kind = 'call-type-args-inferable'
        else:
            kind = '%s.%s' % (owner, attr)
        if ok:
            hist[kind] = hist.get(kind, 0) + 1
        else:
            viols.append(('C03/diff-outside-whitelist/%s.%s' % (owner, attr), {'slot': mutdiff.show_slot(s)}))
    return hist, viols


def judge_erasure(col, case, prog, lang, rseed, stage):
    """Erase `prog` in place; returns (viols, removed_count, text_after)."""
    import random
    viols = []
    before = copy.deepcopy(prog)
    boot._state['utils'].random.r = random.Random(rseed)
    try:
        te = pg.erase(prog, lang)
    except Exception as e:
        col.feature('pipeline_exception(C18 territory):' + type(e).__name__)
        return None
    other, slots = mutdiff.diff(before, prog, limit=20)
    for d in other[:3]:
        attr = str(d[0]).rsplit('.', 1)[-1].split('[')[0].split('{')[0].split('#')[0][:30]
        viols.append(('C03/diff-outside-whitelist/%s' % attr, {'path': str(d[0])[-160:], 'before': str(d[1])[:120],
                                                                 'after': str(d[2])[:120]}))
    hist, v2 = classify_slots(slots)
    viols += v2
    removed = sum(hist.values())
    for k, n in hist.items():
        col.feature('removed_' + k, n)
    if te.is_transformed != (removed > 0):
        col.feature('is_transformed_%s_but_removed_%d(reported only)' % (te.is_transformed, min(removed, 1)))
    # (b) inference mode
    try:
        rv, st = rc.check_program(prog, infer=True)
    except RecursionError:
        rv, st = [], {}
        col.feature('rc_recursion_error(harness)')
    for k in ('inferred_var_types', 'inferred_return_types', 'inferred_constructor_type_args', 'inferred_call_type_args',
              'undetermined_type_parameters', 'inferred_var_type_differs_from_recorded',
              'inferred_return_type_differs_from_recorded', 'inferred_constructor_type_differs_from_recorded',
              'positions', 'no_judgement'):
        if st.get(k):
            col.add_extra('rc_infer_' + k, st[k])
    seen = set()
    for x in rv:
        if x['rule'][0] != 'R':
            continue
        sig = 'C03/ill-typed-after-erasure/%s%s' % (x['rule'], '/after-undetermined-type-parameter' if x.get('after_undetermined') else '')
        if sig in seen:
            continue
        seen.add(sig)
        viols.append((sig, {k: x[k] for k in ('rule', 'path', 'expected', 'actual', 'node')}))
    return viols, removed


def make_judge(col):
    def judge(case):
        lang = case.lang
        prog = case.program
        try:
            text0 = pg.translate(prog, lang)
        except Exception:
            return [], False, None, repr(case.key())[:60]
        base, _ = rc.check_program(prog)
        if any(v['rule'][0] == 'R' for v in base):
            col.feature('input_rejected_by_RC(C01 territory)')
            return [], False, None, progcheck.text_key(text0) + 'skip'
        seed0 = case.seed or len(case.tape or []) or 1
        try:
            pristine = copy.deepcopy(prog)
        except RecursionError:
            pristine = None
        out = []
        total = 0
        for rnd_, stage in ((seed0 * 7 + 1, 'E1'), (seed0 * 7 + 2, 'E2')):
            r = judge_erasure(col, case, prog, lang, rnd_, stage)
            if r is None:
                # the mutation itself raised (C18 territory): the half-mutated program is not judged
                return [], False, None, progcheck.text_key(text0) + 'exc'
            viols, removed = r
            total += removed
            for sig, d in viols:
                out.append((sig, dict(d, lang=lang, stage=stage)))
            if not removed:
                break
        try:
            text1 = pg.translate(prog, lang)
        except Exception:
            text1 = text0
        # other feasible subsets of the same program
        if total and pristine is not None:
            texts = {text1}
            for j in range(OTHER_SUBSETS[col.tier]):
                twin = copy.deepcopy(pristine)
                r = judge_erasure(col, case, twin, lang, seed0 * 7 + 11 + j, 'S%d' % j)
                if r is None:
                    break
                viols, removed = r
                total += removed
                for sig, d in viols:
                    out.append((sig, dict(d, lang=lang, stage='S%d' % j)))
                try:
                    texts.add(pg.translate(twin, lang))
                except Exception:
                    pass
                col.add_extra('other_subset_erasures')
            col.add_extra('other_subset_distinct_texts', len(texts) - 1)
        if total == 0 and text1 != text0:
            out.append(('C03/text-changed-without-removed-annotation', {'lang': lang}))
        sample = lambda: {'lang': lang, 'seed': case.seed, 'mode': case.mode, 'switches': case.switches,
                          'annotations_removed': total, 'erased_head': text1[:300]}
        return out, total > 0, sample, progcheck.text_key(text0 + text1)
    return judge


def handmade_leg(spec, col, n):
    """Hand-shaped programs (vlib/handprog.py): shapes the analysis special-cases and the generator rarely produces."""
    from vlib import handprog, hyp
    lang = spec['lang']
    judge = make_judge(col)

    class Case:
        pass

    def one(x):
        prog, labels = x
        case = Case()
        case.program, case.lang, case.seed, case.tape, case.mode, case.switches = prog, lang, 1, None, 'handmade', []
        case.key = lambda: {'handmade': labels, 'lang': lang}
        viols, nontriv, sample, k = judge(case)
        col.case(key=('hand', k), nontrivial=nontriv, sample=lambda: {'lang': lang, 'handmade_units': labels})
        col.feature('handmade_programs')
        for lab in labels:
            col.feature('handmade_unit:' + lab.split('/')[0])
        for sig, d in viols:
            col.violation(sig + '/handmade:' + '+'.join(sorted({l.split('/')[0] for l in labels})),
                          dict(d, units=labels), {'handmade': labels, 'lang': lang, 'note': 'see vlib/handprog.py'}, size=len(labels))
    hyp.explore(handprog.programs(lang), one, n, col.shard_seed('hand'))


def run_shard(spec, col):
    quick = col.tier == 'quick'
    boot.init(spec['lang'])
    handmade_leg(spec, col, 60 if quick else 1500)
    progcheck.run(spec, col, make_judge(col), n_seed=16 if quick else 400, n_tape=40 if quick else 1500, shrink=True)


def replay(key, col):
    boot.init(key['lang'])
    case = pg.regen(key)
    if case.program is None:
        return
    viols, nontriv, sample, k = make_judge(col)(case)
    col.case(key=k, nontrivial=nontriv, sample=sample)
    for sig, d in viols:
        col.violation(sig, d, key)
