"""Reference type model (RM): the common oracle of C01, C03-C10.

Independent of src/ir/types.py and type_utils.py: IR objects are only *read*
(attributes) and converted to immutable terms; no is_subtype / is_assignable /
substitute_type / new / get_supertypes / __eq__ of the IR is ever called.

terms
  ('bot',)  ('top',)                      least type / implicit top
  ('b', ClsName)                          builtin, by Python class (primitive and
                                          boxed instances of one class are one type)
  ('c', name)                             non-generic class
  ('i', key, (arg, ...))                  instantiation; arg ::= term | ('p','out'|'in',term) | ('star',)
  ('v', name, bound|None)                 type variable
  ('k', key)                              bare (uninstantiated) generic class
  ('cap', id, lo, (hi, ...))              captured variable
"""
BOT = ('bot',)
TOP = ('top',)
STAR = ('star',)
TOP_CLASSES = ('AnyType', 'ObjectType')


def is_proj(a):
    return a[0] in ('p', 'star')


def var_str(v):
    if v is None:
        return 'inv'
    val = getattr(v, 'value', 0)
    return 'out' if val == 1 else ('in' if val == 2 else 'inv')


def con_key(con):
    cn = type(con).__name__
    if cn in ('TypeConstructor', 'ArrayType', 'FunctionType'):
        return con.name
    return cn + ':' + con.name


class Table:
    """name -> {params: [(name, variance, bound)], supers: [term], kind, cls_kind}"""

    def __init__(self):
        self.cls = {}

    def add(self, key, params, supers, kind, cls_kind=None):
        self.cls[key] = dict(params=list(params), supers=list(supers), kind=kind, cls_kind=cls_kind)

    def params(self, key):
        return self.cls[key]['params']


def _kind(t):
    """Classify an IR type object by duck-typing on attributes (no IR methods)."""
    n = type(t).__name__
    if n == 'WildCardType':
        return 'w'
    if n == 'TypeParameter':
        return 'v'
    if hasattr(t, 't_constructor') and hasattr(t, 'type_args'):
        return 'i'
    if hasattr(t, 'type_parameters') and not hasattr(t, 'param_types'):
        return 'k'
    if n in ('NothingType',):
        return 'bot'
    mro = [c.__name__ for c in type(t).__mro__]
    if 'Builtin' in mro:
        return 'b'
    if 'SimpleClassifier' in mro:
        return 'c'
    if 'NothingType' in mro:
        return 'bot'
    return '?'


def to_term(t, table=None):
    """IR type -> term; registers embedded class information in `table`
    (first registration wins; program-level tables are pre-filled from the
    ClassDeclarations so embedded stale copies are never used for them)."""
    if t is None:
        return None
    k = _kind(t)
    if k == 'w':
        if t.bound is None:
            return STAR
        v = var_str(t.variance)
        b = to_term(t.bound, table)
        if v == 'inv':
            return ('p', 'inv', b)
        return ('p', v, b)
    if k == 'v':
        return ('v', t.name, to_term(t.bound, table))
    if k == 'i':
        key = con_key(t.t_constructor)
        if table is not None:
            reg_con(t.t_constructor, table)
        return ('i', key, tuple(to_term(a, table) for a in t.type_args))
    if k == 'k':
        if table is not None:
            reg_con(t, table)
        return ('k', con_key(t))
    if k == 'bot':
        return BOT
    if k == 'b':
        nm = type(t).__name__
        if table is not None and nm not in table.cls:
            table.cls[nm] = None
            try:
                proto = type(t)()
            except Exception:
                proto = t
            sups = [to_term(s, table) for s in list(proto.supertypes)]
            table.add(nm, [], sups, 'b')
        return ('b', nm)
    if k == 'c':
        if table is not None and t.name not in table.cls:
            table.cls[t.name] = None
            table.add(t.name, [], [to_term(s, table) for s in t.supertypes], 'c')
        return ('c', t.name)
    raise TypeError('to_term: %r (%s)' % (t, type(t).__name__))


def reg_con(con, table):
    key = con_key(con)
    if key in table.cls:
        return
    table.cls[key] = None
    params = [(p.name, var_str(p.variance), to_term(p.bound, table)) for p in con.type_parameters]
    table.add(key, params, [to_term(s, table) for s in con.supertypes], 'g')


def subst(t, th):
    """Substitute type variables by name (plain, capture-free): th maps name -> arg."""
    if t is None:
        return None
    k = t[0]
    if k == 'v':
        if t[1] in th:
            return th[t[1]]
        if t[2] is not None:
            return ('v', t[1], subst(t[2], th))
        return t
    if k == 'i':
        return ('i', t[1], tuple(subst_arg(a, th) for a in t[2]))
    if k == 'p':
        return subst_arg(t, th)
    return t


def subst_arg(a, th):
    if a[0] == 'star':
        return a
    if a[0] == 'p':
        b = subst(a[2], th)
        if is_proj(b):
            # a projection substituted under a projection
            if b[0] == 'star':
                return STAR
            if b[1] == a[1] or a[1] == 'inv':
                return b
            if b[1] == 'inv':
                return ('p', a[1], b[2])
            return STAR
        return ('p', a[1], b)
    return subst(a, th)


def free_vars(t, acc=None):
    acc = set() if acc is None else acc
    if t is None:
        return acc
    if t[0] == 'v':
        acc.add(t[1])
        free_vars(t[2], acc)
    elif t[0] == 'i':
        for a in t[2]:
            free_vars(a, acc)
    elif t[0] == 'p':
        free_vars(t[2], acc)
    return acc


def has_kind(t, kinds):
    if t is None:
        return False
    if t[0] in kinds:
        return True
    if t[0] == 'i':
        return any(has_kind(a, kinds) for a in t[2])
    if t[0] == 'p':
        return has_kind(t[2], kinds)
    if t[0] == 'v':
        return has_kind(t[2], kinds)
    return False


def depth(t):
    if t is None:
        return 0
    if t[0] == 'i':
        return 1 + max([depth(a) for a in t[2]] or [0])
    if t[0] == 'p':
        return depth(t[2])
    return 0


def show(t):
    if t is None:
        return 'None'
    k = t[0]
    if k == 'bot':
        return 'Nothing'
    if k == 'top':
        return 'TOP'
    if k == 'star':
        return '*'
    if k == 'b':
        return t[1].replace('Type', '')
    if k == 'c':
        return t[1]
    if k == 'k':
        return t[1] + '<bare>'
    if k == 'v':
        return t[1] + (':' + show(t[2]) if t[2] is not None else '')
    if k == 'p':
        return t[1] + ' ' + show(t[2])
    if k == 'i':
        return '%s<%s>' % (t[1], ', '.join(show(a) for a in t[2]))
    if k == 'cap':
        return 'CAP(%s..%s)' % (show(t[2]), '&'.join(show(h) for h in t[3]))
    return str(t)


class RM:
    """Declarative subtyping over a class table.

    mode 'sem': invariant containment of two plain arguments is mutual
    subtyping (Kotlin spec); mode 'syn': syntactic identity (JLS 4.5.1).
    syn is a sub-relation of sem; they differ only on redundant projections
    of declaration-site-variant parameters."""

    def __init__(self, table, mode='sem', implicit_top=True):
        self.t = table
        self.mode = mode
        self.memo = {}
        # implicit_top=False: a class is below the top type only through declared supertypes (the relation the
        # implementation can be expected to be *complete* for: C06's exact fragment excludes uses of the implicit top)
        self.implicit_top = implicit_top

    def is_top(self, t):
        return t == TOP or (t[0] == 'b' and t[1] in TOP_CLASSES)

    def self_type(self, key):
        info = self.t.cls[key]
        return ('i', key, tuple(('v', pn, pb) for pn, pv, pb in info['params']))

    # ---- supertypes with capture conversion
    def capture(self, s):
        """theta for the declared supertypes of instantiation s."""
        info = self.t.cls[s[1]]
        approx = {}
        for (pn, pv, pb), a in zip(info['params'], s[2]):
            if a[0] == 'star':
                approx[pn] = TOP
            elif a[0] == 'p':
                approx[pn] = a[2] if a[1] in ('out', 'inv') else TOP
            else:
                approx[pn] = a
        th = {}
        for i, ((pn, pv, pb), a) in enumerate(zip(info['params'], s[2])):
            if not is_proj(a):
                th[pn] = a
                continue
            db = subst(pb, approx) if pb is not None else None
            if db is not None and is_proj(db):
                db = None
            his = []
            if a[0] == 'star':
                lo = BOT
            elif a[1] == 'out':
                lo = BOT
                his.append(a[2])
            elif a[1] == 'in':
                lo = a[2]
            else:
                th[pn] = a[2]
                continue
            if db is not None:
                his.append(db)
            if not his:
                his.append(TOP)
            th[pn] = ('cap', (s, i), lo, tuple(his))
        return th

    def supers(self, s):
        k = s[0]
        if k in ('b', 'c'):
            info = self.t.cls.get(s[1])
            if info is None:
                return []
            return list(info['supers'])
        if k == 'i':
            info = self.t.cls.get(s[1])
            if info is None:
                return []
            if len(info['params']) != len(s[2]):
                return []
            th = self.capture(s)
            out = []
            for sup in info['supers']:
                r = subst(sup, th)
                if r is not None and not is_proj(r):
                    out.append(r)
            return out
        return []

    def all_supers(self, s, limit=200):
        """transitive declared supertypes (excluding s)."""
        seen, todo, out = {s}, [s], []
        while todo and len(out) < limit:
            x = todo.pop()
            for u in self.supers(x):
                if u not in seen:
                    seen.add(u)
                    out.append(u)
                    todo.append(u)
        return out

    # ---- subtyping
    def sub(self, s, t, depth=0):
        if s is None or t is None:
            return False
        key = (s, t)
        r = self.memo.get(key)
        if r is not None:
            return r
        if depth > 60:
            return False
        self.memo[key] = False      # cycle guard (coinductive failure)
        r = self._sub(s, t, depth)
        self.memo[key] = r
        return r

    def _sub(self, s, t, d):
        if s == BOT:
            return True
        if t == TOP or (self.implicit_top and self.is_top(t)):
            return True
        if s == t:
            return True
        if is_proj(s) or is_proj(t):
            return self._sub_proj(s, t, d)
        if s[0] == 'cap':
            return any(self.sub(h, t, d + 1) for h in s[3])
        if t[0] == 'cap':
            return t[2] != BOT and self.sub(s, t[2], d + 1)
        if s[0] == 'v':
            return s[2] is not None and self.sub(s[2], t, d + 1)
        if t[0] == 'v':
            return False
        if s[0] == 'k':
            if s[1] not in self.t.cls:
                return False
            return self.sub(self.self_type(s[1]), t, d + 1)
        if t[0] == 'k':
            return False
        if s[0] == 'i' and t[0] == 'i' and s[1] == t[1] and len(s[2]) == len(t[2]):
            info = self.t.cls.get(s[1])
            if info is not None and len(info['params']) == len(s[2]):
                if all(self.contained(a, b, pv, d) for (pn, pv, pb), a, b in zip(info['params'], s[2], t[2])):
                    return True
        if s[0] in ('b', 'c', 'i'):
            for u in self.supers(s):
                if self.sub(u, t, d + 1):
                    return True
        return False

    def _sub_proj(self, s, t, d):
        # top-level projections (declared types that are wildcards)
        if is_proj(s) and is_proj(t):
            return self.contained(s, t, 'inv', d)
        if is_proj(s):
            if s[0] == 'p' and s[1] in ('out', 'inv'):
                return self.sub(s[2], t, d + 1)
            return False
        return self.contained(s, t, 'inv', d)

    def interval(self, a, pv):
        if a[0] == 'star':
            lo, hi = BOT, TOP
        elif a[0] == 'p':
            if a[1] == 'out':
                lo, hi = BOT, a[2]
            elif a[1] == 'in':
                lo, hi = a[2], TOP
            else:
                lo, hi = a[2], a[2]
        else:
            lo, hi = a, a
        if pv == 'out':
            lo = BOT
        elif pv == 'in':
            hi = TOP
        return lo, hi

    def contained(self, a, b, pv, d=0):
        if self.mode == 'syn' and pv == 'inv' and not is_proj(a) and not is_proj(b):
            return a == b
        l1, h1 = self.interval(a, pv)
        l2, h2 = self.interval(b, pv)
        return self.sub(l2, l1, d + 1) and self.sub(h1, h2, d + 1)

    # ---- well-formedness
    def wf(self, t, scope=None):
        """arity, bounds, no conflicting projections; scope = names of type
        variables allowed (None: any)."""
        if t is None:
            return False
        k = t[0]
        if k in ('bot', 'top', 'b', 'c'):
            return k != 'c' or t[1] in self.t.cls
        if k == 'v':
            return scope is None or t[1] in scope
        if k == 'k':
            return t[1] in self.t.cls
        if k == 'i':
            info = self.t.cls.get(t[1])
            if info is None or len(info['params']) != len(t[2]):
                return False
            approx = {}
            for (pn, pv, pb), a in zip(info['params'], t[2]):
                approx[pn] = a
            for (pn, pv, pb), a in zip(info['params'], t[2]):
                if a[0] == 'star':
                    continue
                inner = a[2] if a[0] == 'p' else a
                if a[0] == 'p':
                    if (a[1] == 'in' and pv == 'out') or (a[1] == 'out' and pv == 'in'):
                        return False
                    if is_proj(inner):
                        return False
                if not self.wf(inner, scope):
                    return False
                if pb is not None and not (a[0] == 'p' and a[1] == 'in'):
                    b = subst(pb, approx)
                    if is_proj(b):
                        if b[0] == 'p' and b[1] == 'out':
                            b = b[2]
                        else:
                            continue
                    if not self.sub(inner, b):
                        return False
            return True
        return False

    def exact_fragment(self, t):
        """Fragment on which C06 claims exactness: no type variable, no
        primitive (caller's job), no star, no use of the implicit top."""
        if t is None:
            return False
        k = t[0]
        if k in ('v', 'k', 'cap', 'star', 'top'):
            return False
        if k == 'bot':
            return True
        if k == 'b':
            return t[1] not in TOP_CLASSES
        if k == 'c':
            return True
        if k == 'p':
            return t[1] in ('out', 'in') and not is_proj(t[2]) and self.exact_fragment(t[2])
        if k == 'i':
            return all(self.exact_fragment(a) for a in t[2])
        return False


def table_from_decls(class_decls, table=None):
    """Class table of a program, read from its ClassDeclarations (never from
    copies embedded in type objects)."""
    table = table or Table()
    for c in class_decls:
        table.cls[c.name] = None
    for c in class_decls:
        params = [(p.name, var_str(p.variance), to_term(p.bound, table)) for p in c.type_parameters]
        sups = [to_term(s.class_type, table) for s in c.superclasses]
        table.add(c.name, params, sups, 'g' if params else 'c', cls_kind=c.class_type)
    return table
