#!/venv/bin/python
"""Sensitivity self-test: apply each mutant patch (mutants/<ID>/*.patch or
seeded/<ID>*/patch.diff) to a scratch copy of the repository, optionally
confirm the pinned suite still passes, run the quick check with
VERIF_REPO=<scratch> and require exit 1 with a VIOLATION line.

usage: selftest.py [--suite] [--mutants-only] [ID ...] [--only name-substring]
Results are appended to mutants/RESULTS.json (committed)."""
import glob
import json
import os
import shutil
import subprocess
import sys
import tempfile
import time

ROOT = os.path.dirname(os.path.dirname(os.path.abspath(__file__)))


def sh(cmd, **kw):
    return subprocess.run(cmd, shell=True, stdout=subprocess.PIPE, stderr=subprocess.STDOUT, text=True, **kw)


def main():
    args = sys.argv[1:]
    suite = '--suite' in args
    only = None
    if '--only' in args:
        only = args[args.index('--only') + 1]
        args = [a for i, a in enumerate(args) if a != '--only' and (i == 0 or args[i - 1] != '--only')]
    ids = [a.upper() for a in args if not a.startswith('--')]
    patches = []
    for p in sorted(glob.glob(os.path.join(ROOT, 'mutants', '*', '*.patch'))):
        patches.append((os.path.basename(os.path.dirname(p)), p))
    for p in ([] if '--mutants-only' in args else sorted(glob.glob(os.path.join(ROOT, 'seeded', '*', 'patch.diff')))):
        meta = os.path.join(os.path.dirname(p), 'meta.json')
        md = json.load(open(meta)) if os.path.exists(meta) else {}
        if md.get('obsolete'):
            print('SKIP %s: %s' % (os.path.relpath(p, ROOT), md['obsolete'][:120]))
            continue
        pid = md.get('property') or os.path.basename(os.path.dirname(p))[:3]
        patches.append((pid, p))
    results = {}
    rpath = os.path.join(ROOT, 'mutants', 'RESULTS.json')
    if os.path.exists(rpath):
        results = json.load(open(rpath))
    ok_all = True
    for pid, patch in patches:
        if ids and pid not in ids:
            continue
        if only and only not in patch:
            continue
        scratch = tempfile.mkdtemp(prefix='verif_mut_')
        try:
            sh('git -C /repo archive HEAD | tar -x -C %s' % scratch)
            # working-tree state of /repo is what checks see; mutants apply to HEAD (kept clean)
            r = sh('git apply --whitespace=nowarn %s' % patch, cwd=scratch) if False else sh('patch -p1 -s < %s' % patch, cwd=scratch)
            if r.returncode != 0:
                print('MUTANT %s: patch does not apply: %s' % (patch, r.stdout[-300:]))
                results[os.path.relpath(patch, ROOT)] = {'status': 'patch-failed'}
                ok_all = False
                continue
            suite_ok = None
            if suite:
                t = sh('/venv/bin/python -m pytest -q -x -p no:cacheprovider tests 2>&1 | tail -1', cwd=scratch)
                suite_ok = ' passed' in t.stdout and 'failed' not in t.stdout
            env = dict(os.environ, VERIF_REPO=scratch, VERIF_SCRATCH=os.path.join(scratch, '.vscratch'))
            t0 = time.time()
            r = subprocess.run([os.path.join(ROOT, 'vcheck'), pid, 'quick', '--no-evidence'], cwd=ROOT, env=env,
                               stdout=subprocess.PIPE, stderr=subprocess.STDOUT, text=True)
            viol = [l for l in r.stdout.splitlines() if l.startswith('VIOLATION')]
            caught = r.returncode == 1 and bool(viol)
            sigs = sorted({l.split('signature=')[1].split(' ')[0] for l in viol if 'signature=' in l})
            print('MUTANT %-60s %s suite=%s exit=%d %.0fs %s' % (os.path.relpath(patch, ROOT), 'CAUGHT' if caught else 'MISSED',
                                                             suite_ok, r.returncode, time.time() - t0, sigs[:3]))
            if not caught:
                ok_all = False
                print(r.stdout[-1500:])
            results[os.path.relpath(patch, ROOT)] = {'property': pid, 'caught': caught, 'suite_passes': suite_ok,
                                                     'exit': r.returncode, 'signatures': sigs[:6]}
        finally:
            shutil.rmtree(scratch, ignore_errors=True)
    with open(rpath, 'w') as f:
        json.dump(results, f, indent=1, sort_keys=True)
    return 0 if ok_all else 1


if __name__ == '__main__':
    sys.exit(main())
