"""Hand-shaped IR programs: a Hypothesis strategy that assembles small
well-typed programs from the shapes the type-dependency analysis (and thus
TypeErasure / TypeOverwriting) treats specially and that the real generator
produces only rarely: self-referential functions (direct and through a
receiver), generic calls whose type parameter occurs only in the result,
uninformative arguments (untyped bottom, lambda), generic constructors whose
declared type argument is a supertype of what the arguments suggest,
reassigned variables with a declared supertype (local, and top-level ones
assigned by a later function), chains of variables, functions declared inside
functions (0-5 parameters, optionally a trailing vararg called with 0-3
variadic values), generic calls with explicit but inferable type arguments.
Programs are built with the same constructors and Context registrations the
generator uses; each is first checked by the reference checker (a program it
rejects is discarded and counted)."""
from hypothesis import strategies as st


class Builder:
    def __init__(self, lang):
        from src.ir import ast, types as tp, context as ctx, BUILTIN_FACTORIES
        self.ast, self.tp = ast, tp
        self.lang = lang
        self.f = BUILTIN_FACTORIES[lang]
        self.ctx = ctx.Context()
        self.n = 0
        self.G = ast.GLOBAL_NAMESPACE

    def name(self, base):
        self.n += 1
        return '%s%d' % (base, self.n)

    def string(self):
        return self.f.get_string_type()

    def anyt(self):
        return self.f.get_any_type()

    def number(self):
        return self.f.get_number_type()

    def integer(self):
        return self.f.get_integer_type()

    def const(self, t):
        ast = self.ast
        n = type(t).__name__
        if 'String' in n:
            return ast.StringConstant('s%d' % self.n)
        if 'Integer' in n or 'Number' in n:
            return ast.IntegerConstant(7, t)
        return ast.BottomConstant(t)

    def func(self, ns, name, params, ret, body, cls=None, type_params=()):
        ast = self.ast
        f = ast.FunctionDeclaration(name, params, ret, body,
                                    ast.FunctionDeclaration.CLASS_METHOD if cls is not None else ast.FunctionDeclaration.FUNCTION,
                                    is_final=True, type_parameters=list(type_params))
        self.ctx.add_func(ns, name, f)
        fns = ns + (name,)
        for p in params:
            self.ctx.add_var(fns, p.name, p)
        for tpar in type_params:
            self.ctx.add_type(fns, tpar.name, tpar)
        if isinstance(body, ast.Block):
            for s in body.body:
                if isinstance(s, ast.VariableDeclaration):
                    self.ctx.add_var(fns, s.name, s)
        if cls is not None:
            cls.functions.append(f)
        return f

    def cls(self, name, fields=(), type_params=()):
        ast = self.ast
        c = ast.ClassDeclaration(name, [], ast.ClassDeclaration.REGULAR, fields=list(fields), functions=[],
                                 is_final=True, type_parameters=list(type_params))
        self.ctx.add_class(self.G, name, c)
        for tpar in type_params:
            self.ctx.add_type(self.G + (name,), tpar.name, tpar)
        for fld in fields:
            self.ctx.add_var(self.G + (name,), fld.name, fld)
        return c

    def program(self):
        ast = self.ast
        main = ast.FunctionDeclaration('main', [], self.f.get_void_type(), ast.Block([ast.StringConstant('m')]),
                                       ast.FunctionDeclaration.FUNCTION)
        self.ctx.add_func(self.G, 'main', main)
        return ast.Program(self.ctx, self.lang)


class Chooser:
    """Every random choice of a hand-shaped program goes through one of these: backed by Hypothesis (exploration,
    shrinking), by a seeded PRNG (pools) or by a recorded trace (replay files).  The trace of choices is the
    replayable identity of the program."""

    def __init__(self, draw=None, rnd=None, trace=None):
        self.draw, self.rnd = draw, rnd
        self.replay = list(trace) if trace is not None else None
        self.trace = []

    def integer(self, a, b):
        if self.replay is not None:
            v = self.replay.pop(0) if self.replay else a
            v = min(max(int(v), a), b)
        elif self.draw is not None:
            v = self.draw(st.integers(a, b))
        else:
            v = self.rnd.randint(a, b)
        self.trace.append(v)
        return v

    def pick(self, seq):
        seq = list(seq)
        return seq[self.integer(0, len(seq) - 1)]

    def boolean(self):
        return bool(self.integer(0, 1))


@st.composite
def programs(draw, lang):
    """-> (program, [unit labels])"""
    prog, labels, _ = build(lang, Chooser(draw=draw))
    return prog, labels


@st.composite
def programs_with_trace(draw, lang):
    """-> (program, [unit labels], trace): `from_trace(lang, trace)` rebuilds the same program."""
    return build(lang, Chooser(draw=draw))


def from_seed(lang, seed):
    import random
    return build(lang, Chooser(rnd=random.Random(seed)))


def from_trace(lang, trace):
    return build(lang, Chooser(trace=trace))


def build(lang, ch):
    """-> (program, [unit labels], trace of choices)"""
    from src.ir import ast, types as tp
    b = Builder(lang)
    UNITS = ['recursive', 'recursive', 'ret-only-generic', 'ret-only-generic', 'box', 'reassigned',
                                           'chain', 'lambda-arg', 'phantom', 'global-reassigned', 'nested-func', 'nested-func',
                                           'generic-call', 'receiver-new', 'receiver-new', 'nested-reassigned', 'make-generic']
    units = [ch.pick(UNITS) for _ in range(ch.integer(1, 4))]
    labels = []
    for u in units:
        if u == 'recursive':
            cname = b.name('Rec')
            c = b.cls(cname)
            ct = c.get_type()
            fname = b.name('echo')
            how = ch.pick(['plain-call', 'receiver-new', 'receiver-bottom', 'constant'])
            block = ch.boolean()
            ret = ch.pick([b.string(), b.integer()])
            ns = b.G + (cname,)
            if how == 'plain-call':
                e = ast.FunctionCall(fname, [])
            elif how == 'receiver-new':
                e = ast.FunctionCall(fname, [], receiver=ast.New(ct, []))
            elif how == 'receiver-bottom':
                e = ast.FunctionCall(fname, [], receiver=ast.BottomConstant(ct))
            else:
                e = b.const(ret)
            body = ast.Block([e]) if block else e
            b.func(ns, fname, [], ret, body, cls=c)
            labels.append('recursive/%s/%s' % (how, 'block' if block else 'expression'))
        elif u in ('ret-only-generic', 'lambda-arg'):
            T = tp.TypeParameter('T%d' % b.n)
            pname = b.name('pick')
            argk = ch.pick(['typed-constant', 'untyped-bottom', 'typed-bottom', 'none']) if u == 'ret-only-generic' else 'lambda'
            params = []
            if argk != 'none':
                pt = b.anyt() if argk != 'lambda' else b.f.get_function_type(0).new([b.integer()])
                params = [ast.ParameterDeclaration(b.name('x'), pt)]
            b.func(b.G, pname, params, T, ast.BottomConstant(T), type_params=[T])
            want = ch.pick([b.string(), b.number()])
            if argk == 'typed-constant':
                a = [ast.CallArgument(ast.IntegerConstant(7, b.integer()))]
            elif argk == 'untyped-bottom':
                a = [ast.CallArgument(ast.BottomConstant(None))]
            elif argk == 'typed-bottom':
                a = [ast.CallArgument(ast.BottomConstant(b.anyt()))]
            elif argk == 'lambda':
                sig = b.f.get_function_type(0).new([b.integer()])
                lam = ast.Lambda(b.name('lam'), [], b.integer(), ast.IntegerConstant(3, b.integer()), sig)
                a = [ast.CallArgument(lam)]
            else:
                a = []
            call = ast.FunctionCall(pname, a, type_args=[want])
            vname = b.name('a')
            v = ast.VariableDeclaration(vname, call, is_final=True, var_type=want)
            uname = b.name('user')
            uses = ch.pick(['return-var', 'pass-on'])
            b.func(b.G, uname, [], want, ast.Block([v, ast.Variable(vname)]))
            labels.append('ret-only-generic/%s' % argk)
        elif u == 'nested-func':
            # a function declared inside a function (Java/Groovy: a lambda held in a FunctionN variable)
            oname, iname = b.name('outer'), b.name('inner')
            nfixed = ch.integer(0, 5)
            vararg = ch.boolean()
            ret = ch.pick([b.string(), b.integer()])
            params, args = [], []
            for j in range(nfixed):
                pt = ch.pick([b.string(), b.integer()])
                params.append(ast.ParameterDeclaration(b.name('q'), pt))
                args.append(ast.CallArgument(ast.StringConstant('a%d' % b.n) if pt == b.string()
                                             else ast.IntegerConstant(100 + b.n, b.integer())))
            nvar = 0
            elem = None
            if vararg:
                if lang == 'kotlin':
                    from src.ir import kotlin_types as kt
                    vt = kt.IntegerArray
                elif lang == 'scala':
                    from src.ir import scala_types as sc
                    vt = sc.Seq.new([b.integer()])
                else:
                    vt = b.f.get_array_type().new([b.integer()])
                if lang != 'kotlin' and ch.integer(0, 2) == 0:
                    # a vararg whose element type is itself parameterized: Cell<String>...
                    cell = b.cls(b.name('Cell'), type_params=[tp.TypeParameter('E%d' % b.n)])
                    elem = cell.get_type().new([b.string()])
                    vt = vt.t_constructor.new([elem])
                params.append(ast.ParameterDeclaration(b.name('vs'), vt, vararg=True))
                nvar = ch.integer(0, 3)
                for j in range(nvar):
                    b.n += 1
                    args.append(ast.CallArgument(ast.IntegerConstant(200 + b.n, b.integer()) if elem is None
                                                 else ast.New(cell.get_type().new([b.string()]), [])))
            block = ch.boolean()
            ibody = b.const(ret)
            inner = b.func(b.G + (oname,), iname, params, ret, ast.Block([ibody]) if block else ibody)
            call = ast.FunctionCall(iname, args)
            b.func(b.G, oname, [], ret, ast.Block([inner, call]))
            labels.append('nested-func/%d%s/%s' % (nfixed, ('+vararg%d' % nvar + ('-parameterized' if elem is not None else '')) if vararg else '', 'block' if block else 'expression'))
        elif u == 'receiver-new':
            # a constructor call in *receiver* position (no expected type there): its explicit type argument is
            # determined by nothing but itself, although the enclosing declaration has a declared type of the same class
            T = tp.TypeParameter('R%d' % b.n)
            cname = b.name('Node')
            targ = ch.pick([b.string(), b.integer()])
            c = b.cls(cname, type_params=[T])
            con = c.get_type()
            dep = ch.boolean()       # self-typed field Node<T> (its type follows the receiver's argument) or a fixed Node<targ>
            fld = ast.FieldDeclaration(b.name('next'), con.new([T]) if dep else con.new([targ]), is_final=True)
            c.fields.append(fld)
            b.ctx.add_var(b.G + (cname,), fld.name, fld)
            dname = b.name('dup')
            b.func(b.G + (cname,), dname, [], con.new([T]), ast.BottomConstant(con.new([T])), cls=c)
            how = ch.pick(['field', 'call'])
            recv = ast.New(con.new([targ]), [ast.BottomConstant(None) if dep else ast.BottomConstant(con.new([targ]))])
            e = ast.FieldAccess(recv, fld.name) if how == 'field' else ast.FunctionCall(dname, [], receiver=recv)
            vname = b.name('n')
            v = ast.VariableDeclaration(vname, e, is_final=True, var_type=con.new([targ]))
            b.func(b.G, b.name('walk'), [], con.new([targ]), ast.Block([v, ast.Variable(vname)]))
            labels.append('receiver-new/' + how + ('/self-typed' if dep else ''))
        elif u == 'nested-reassigned':
            # a variable with a declared supertype, initialised from a top-level variable declared *later*, and assigned
            # from a nested scope (a function declared inside the function)
            gname, vname = b.name('late'), b.name('w')
            wide = b.anyt()
            v = ast.VariableDeclaration(vname, ast.Variable(gname), is_final=False, var_type=wide)
            uname, iname = b.name('late_user'), b.name('setter')
            asg = ast.Assignment(vname, ast.IntegerConstant(5, b.integer()))
            inner = b.func(b.G + (uname,), iname, [], b.f.get_void_type(), ast.Block([asg]))
            b.func(b.G, uname, [], b.f.get_void_type(), ast.Block([v, inner, ast.FunctionCall(iname, [])]))
            g = ast.VariableDeclaration(gname, ast.StringConstant('g'), is_final=True, var_type=b.string())
            b.ctx.add_var(b.G, gname, g)
            labels.append('nested-reassigned')
        elif u == 'make-generic':
            # fun <X> make(): Shelf<X>  called as  val s: Shelf<String> = make<String>()
            X = tp.TypeParameter('M%d' % b.n)
            c = b.cls(b.name('Shelf'), type_params=[tp.TypeParameter('S%d' % b.n)])
            con = c.get_type()
            mname = b.name('make')
            b.func(b.G, mname, [], con.new([X]), ast.BottomConstant(con.new([X])), type_params=[X])
            targ = ch.pick([b.string(), b.integer()])
            vname = b.name('s')
            v = ast.VariableDeclaration(vname, ast.FunctionCall(mname, [], type_args=[targ]), is_final=True, var_type=con.new([targ]))
            b.func(b.G, b.name('shelve'), [], con.new([targ]), ast.Block([v, ast.Variable(vname)]))
            labels.append('make-generic')
        elif u == 'generic-call':
            # explicit type argument that the argument determines (erasable, and a site TypeOverwriting can pick)
            T = tp.TypeParameter('I%d' % b.n)
            iname = b.name('ident')
            par = ast.ParameterDeclaration(b.name('x'), T)
            b.func(b.G, iname, [par], T, ast.Variable(par.name), type_params=[T])
            want = ch.pick([b.string(), b.integer()])
            call = ast.FunctionCall(iname, [ast.CallArgument(b.const(want))], type_args=[want])
            vname = b.name('r')
            v = ast.VariableDeclaration(vname, call, is_final=True, var_type=want)
            b.func(b.G, b.name('useid'), [], want, ast.Block([v, ast.Variable(vname)]))
            labels.append('generic-call')
        elif u == 'box':
            T = tp.TypeParameter('B%d' % b.n)
            cname = b.name('Box')
            fld = ast.FieldDeclaration(b.name('f'), T, is_final=True)
            c = b.cls(cname, fields=[fld], type_params=[T])
            con = c.get_type()
            decl_arg = ch.pick(['exact', 'supertype'])
            targ = b.string() if decl_arg == 'exact' else b.anyt()
            t = con.new([targ])
            new = ast.New(t, [ast.StringConstant('x')])
            vname = b.name('b')
            v = ast.VariableDeclaration(vname, new, is_final=True, var_type=con.new([targ]))    # (no object sharing)
            use = ch.pick(['field-access', 'var'])
            e = ast.FieldAccess(ast.Variable(vname), fld.name) if use == 'field-access' else ast.Variable(vname)
            b.func(b.G, b.name('mk'), [], targ if use == 'field-access' else con.new([targ]), ast.Block([v, e]))
            labels.append('box/%s/%s' % (decl_arg, use))
        elif u == 'phantom':
            # a type parameter no constructor argument mentions: only a declared type can determine it
            T = tp.TypeParameter('P%d' % b.n)
            cname = b.name('Phantom')
            c = b.cls(cname, type_params=[T])
            con = c.get_type()
            targ = ch.pick([b.number(), b.number(), b.integer(), b.string()])
            vname = b.name('p')
            v = ast.VariableDeclaration(vname, ast.New(con.new([targ]), []), is_final=True, var_type=con.new([targ]))
            if ch.boolean():
                b.func(b.G, b.name('ph'), [], con.new([targ]), ast.Block([v, ast.Variable(vname)]))
                labels.append('phantom/returned')
            else:
                b.func(b.G, b.name('ph'), [], b.f.get_void_type(), ast.Block([v]))
                labels.append('phantom/unused')
        elif u == 'global-reassigned':
            # a top-level variable whose declared type its initialiser does not determine, assigned by a later function
            kind = ch.pick(['supertype', 'phantom'])
            gname = b.name('g')
            if kind == 'supertype':
                wide = ch.pick([b.anyt(), b.number()])
                g = ast.VariableDeclaration(gname, ast.IntegerConstant(1, b.integer()), is_final=False, var_type=wide)
                ptype = wide
            else:
                T = tp.TypeParameter('Q%d' % b.n)
                c = b.cls(b.name('Shell'), type_params=[T])
                targ = ch.pick([b.string(), b.number()])
                ptype = c.get_type().new([targ])
                g = ast.VariableDeclaration(gname, ast.New(c.get_type().new([targ]), []), is_final=False,
                                            var_type=c.get_type().new([targ]))
            b.ctx.add_var(b.G, gname, g)
            p = ast.ParameterDeclaration(b.name('value'), ptype)
            b.func(b.G, b.name('store'), [p], b.f.get_void_type(), ast.Block([ast.Assignment(gname, ast.Variable(p.name))]))
            labels.append('global-reassigned/' + kind)
        elif u == 'reassigned':
            vname = b.name('v')
            wide = ch.pick([b.anyt(), b.number()])
            v = ast.VariableDeclaration(vname, ast.IntegerConstant(1, b.integer()), is_final=False, var_type=wide)
            other = ast.StringConstant('z') if type(wide).__name__ in ('AnyType', 'ObjectType') else ast.IntegerConstant(2, b.number())
            asg = ast.Assignment(vname, other)
            b.func(b.G, b.name('re'), [], b.f.get_void_type(), ast.Block([v, asg]))
            labels.append('reassigned')
        else:
            x = b.name('x')
            y = b.name('y')
            wide = ch.pick([b.number(), b.integer()])
            vx = ast.VariableDeclaration(x, ast.IntegerConstant(1, b.integer()), is_final=True, var_type=wide)
            vy = ast.VariableDeclaration(y, ast.Variable(x), is_final=True, var_type=wide)
            b.func(b.G, b.name('ch'), [], wide, ast.Block([vx, vy, ast.Variable(y)]))
            labels.append('chain')
    return b.program(), labels, list(ch.trace)
