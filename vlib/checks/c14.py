"""C14 - diagnostics attributed to the right programs.

Synthetic leg (all four compilers): Hypothesis assembles the text a compiler
prints for a batch from productions of its real output format; the ground
truth (which file has which error, which errors a filter pattern hits,
whether an internal stack trace is present) is known by construction.
Real leg (Java): batches of small Java files laid out like the tool does are
compiled by the installed javac with the tool's own command line; ground
truth = every file compiled alone, read by vlib.jd (own line parser).

The judge never mirrors src/compilers: expectations are derived from the
blocks the text was assembled from, respectively from javac's own per-file
verdicts.
"""
import hashlib
import json
import os
import random
import re
import shutil
import tempfile

from vlib import boot

LEVEL = 'fault_enumeration'
RULE = (
    'case = (compiler, output text of one batch, file list, filter patterns); synthetic: per compiler a grammar of '
    'its real output format: 1-12 files /tmp/tmp[a-z0-9_]{8}/src/<pool word>/<Main.java|program.kt|Main.groovy|'
    'program.scala>, 0-4 error diagnostics per file, grouped by file or interleaved, file warnings, file-less '
    'warnings, JVM notes, javac Note:/N errors/M warnings, dotty "N errors found", quoted source + caret lines '
    '(identifiers and labels named error, ternaries, other packages of the batch), multi-line messages with detail '
    'lines, 0-2 filter patterns of the form .*<literal from a diagnostic head line>.* (every output line such a '
    'pattern matches is a diagnostic head line), optional internal stack trace; pool words: 300 seeded samples of '
    'src/resources/words plus every word containing error/warning/note/java/groovy/scala/dotty/jet...; '
    'real: 2-5 Java files per batch (correct, 1-3 attribution-phase type errors, lint-only), compiled with '
    'JavaCompiler.get_compiler_cmd() through the shell (a third of the batches with -Xlint:all in place of -nowarn '
    'so that real warnings are printed; one extra batch provokes a real javac StackOverflowError trace); '
    'expected: keys of `failed` == files with >=1 error whose head line no pattern matches, messages per file '
    'one-to-one (java: "<line>: error: <first line>", kotlin: first line, groovy: whole block up to the empty line, '
    'scala: body up to the first "-"), stack trace <=> crash_msg set and no diagnostics returned; '
    'non-trivial = >=2 failing files, >=1 passing file and >=1 warning/note in the text; '
    'distinct = sha1(compiler, output, patterns); evaluations = batches analysed')
ASSUMPTIONS = [
    'kotlinc, groovyc and scalac are not installed: their productions are taken from the documented formats '
    '(DESIGN.md C14, the comments and shapes of the regular expressions in src/compilers, the README fault sample), '
    'not from runs of those compilers; javac productions were compared with javac 17 output and are re-validated '
    'by the real leg in every run',
    'a filter pattern is in the domain when it covers a whole diagnostic head line (.*<text>.*): for such a '
    'pattern "the message matches" is unambiguous; patterns matching only a fragment of a line (the tool then '
    'keeps the file with a truncated message) are counted as info_* numbers, not judged',
    'dotty head lines are generated with at least one trailing dash as documented; what dotty prints when the '
    'title is wider than the page (80 columns) could not be observed here and is not generated',
    'real leg: only attribution-phase errors are injected, because javac skips flow analysis (missing return...) '
    'for the whole batch once any file has an error, so a file compiled alone would not be a valid reference',
    'tempfile.mkdtemp() under /tmp (names tmp[a-z0-9_]{8}) as in hephaestus._run',
    'real leg reference: each file is compiled in a compilation of its own through javax.tools (same flags, same '
    'messages as the javac command line, one JVM per batch; falls back to one javac process per file), read by '
    'vlib.jd; if javac itself prints other errors for the batch than for the single files the batch text as read '
    'by vlib.jd is the reference and the batch is counted in real_batches_where_alone_and_batch_differ',
]
MIN_NONTRIVIAL = {'quick': 400, 'thorough': 8000}
COMPILERS = ['java', 'kotlin', 'groovy', 'scala']
FILENAME = {'java': 'Main.java', 'kotlin': 'program.kt', 'groovy': 'Main.groovy', 'scala': 'program.scala'}
NSYN = {'quick': 2000, 'thorough': 40000}       # per compiler
NREAL = {'quick': 20, 'thorough': 300}          # javac batches in total


def shards(tier):
    specs = []
    nreal = NREAL[tier]
    for k in range(16):
        comp = COMPILERS[k % 4]
        part = k // 4
        nsyn = NSYN[tier] // 4
        nj = nreal // 16 + (1 if k < nreal % 16 else 0)
        specs.append({'compiler': comp, 'part': part, 'nsyn': nsyn, 'njavac': nj, 'crash_batch': k == 15})
    return specs


# ------------------------------------------------------------------ word pool
_pool = None
AWK_RE = re.compile(r'error|warning|^note|^java|^groovy$|^scala$|^dotty$|^program$|^exception$|^found$|^required$|'
                    r'^symbol$|^location$|^caused$|^jet')
JAVA_RESERVED = {'abstract', 'assert', 'boolean', 'break', 'byte', 'case', 'catch', 'char', 'class', 'const',
                 'continue', 'default', 'do', 'double', 'else', 'enum', 'extends', 'final', 'finally', 'float',
                 'for', 'goto', 'if', 'implements', 'import', 'instanceof', 'int', 'interface', 'long', 'native',
                 'new', 'package', 'private', 'protected', 'public', 'return', 'short', 'static', 'strictfp',
                 'super', 'switch', 'synchronized', 'this', 'throw', 'throws', 'transient', 'try', 'void',
                 'volatile', 'while', 'true', 'false', 'null', 'var', 'record', 'yield'}


def pool():
    """(ordinary words, awkward words) from the tool's identifier pool."""
    global _pool
    if _pool is None:
        path = os.path.join(boot.repo(), 'src', 'resources', 'words')
        with open(path) as f:
            allw = sorted({w.strip() for w in f if w.strip()})
        rnd = random.Random(1414)
        base = rnd.sample(allw, 300)
        awk = [w for w in allw if AWK_RE.search(w)]
        # shortest and longest words are path-shape corner cases too
        by_len = sorted(allw, key=lambda w: (len(w), w))
        base = sorted(set(base) | set(by_len[:10]) | set(by_len[-10:]))
        _pool = (base, awk)
    return _pool


# ------------------------------------------------------------------ text productions
class Ctx:
    """Filler choices of one batch (seeded by a Hypothesis-drawn integer)."""

    def __init__(self, r, pkgs):
        self.r = r
        self.pkgs = pkgs
        self.words, self.awk = pool()

    def w(self):
        r = self.r
        if r.random() < 0.12:
            return r.choice(['error', 'errors', 'warning', 'note', 'exception', 'terror', 'main'])
        return r.choice(self.words)

    def T(self):
        return self.w().capitalize()

    def pkg(self):
        return self.r.choice(self.pkgs)

    def n(self, a, b):
        return self.r.randint(a, b)

    def pick(self, xs):
        return self.r.choice(xs)


def jt(c):
    k = c.n(0, 8)
    if k <= 2:
        return c.pick(['int', 'String', 'boolean', 'Integer', 'Object', 'long', 'Double', 'char'])
    if k <= 5:
        return c.T()
    if k == 6:
        return '%s<%s>' % (c.T(), c.T())
    if k == 7:
        return '%s<? extends %s>' % (c.T(), c.T())
    return '%s<%s,%s<? super %s>>' % (c.T(), c.pick(['Integer', 'String']), c.T(), c.T())


# javac: (first line of the message, indented detail lines)
JAVA_ERRORS = [
    lambda c: ('incompatible types: %s cannot be converted to %s' % (jt(c), jt(c)), []),
    lambda c: ('cannot find symbol', ['  symbol:   method %s(%s)' % (c.w(), jt(c)), '  location: class %s' % c.T()]),
    lambda c: ('cannot find symbol', ['  symbol:   variable %s' % c.w(),
                                      '  location: variable %s of type %s' % (c.w(), jt(c))]),
    lambda c: ('cannot find symbol', ['  symbol:   class %s' % c.T(), '  location: class Main']),
    lambda c: ('method %s in class %s cannot be applied to given types;' % (c.w(), c.T()),
               ['  required: %s' % jt(c), '  found:    %s,%s' % (jt(c), jt(c)),
                '  reason: actual and formal argument lists differ in length']),
    lambda c: ('method %s in class %s cannot be applied to given types;' % (c.w(), c.T()),
               ['  required: T', '  found:    %s' % jt(c), '  reason: inference variable T has incompatible bounds',
                '    lower bounds: %s' % c.T(), '    lower bounds: %s' % jt(c), '  where T is a type-variable:',
                '    T extends %s declared in method <T>%s(T)' % (c.T(), c.w())]),
    lambda c: ('incompatible types: bad type in conditional expression',
               ['    %s cannot be converted to %s' % (jt(c), jt(c))]),
    lambda c: ('incompatible types: bad return type in lambda expression',
               ['    %s cannot be converted to %s' % (jt(c), jt(c))]),
    lambda c: ('incompatible types: inference variable T has incompatible bounds',
               ['    equality constraints: %s' % jt(c), '    lower bounds: %s' % jt(c),
                '  where T is a type-variable:', '    T extends Object declared in class %s' % c.T()]),
    lambda c: ('missing return statement', []),
    lambda c: ('variable %s is already defined in method %s()' % (c.w(), c.w()), []),
    lambda c: ('%s is not abstract and does not override abstract method %s(%s) in %s'
               % (c.T(), c.w(), jt(c), c.T()), []),
    lambda c: ('type argument %s is not within bounds of type-variable %s' % (jt(c), c.pick('TUVXYZ')), []),
    lambda c: ("bad operand types for binary operator '%s'" % c.pick(['+', '-', '&&', '<', '==']),
               ['  first type:  %s' % jt(c), '  second type: %s' % jt(c)]),
    lambda c: ('Main is not public in src.%s; cannot be accessed from outside package' % c.pkg(), []),
    lambda c: ("';' expected", []),
    lambda c: ('%s() in %s cannot override %s() in %s' % (c.w(), c.T(), c.w(), c.T()),
               ['  return type %s is not compatible with %s' % (jt(c), jt(c))]),
]
JAVA_WARNINGS = [
    lambda c: ('[unchecked] unchecked cast', ['  required: %s' % jt(c), '  found:    %s' % jt(c)]),
    lambda c: ('[deprecation] %s() in %s has been deprecated' % (c.w(), c.T()), []),
    lambda c: ('[rawtypes] found raw type: %s' % c.T(),
               ['  missing type arguments for generic class %s<E>' % c.T(), '  where E is a type-variable:',
                '    E extends Object declared in class %s' % c.T()]),
    lambda c: ('[unchecked] unchecked call to %s(E) as a member of the raw type %s' % (c.w(), c.T()),
               ['  where E is a type-variable:', '    E extends Object declared in interface %s' % c.T()]),
    lambda c: ('[fallthrough] possible fall-through into case', []),
    lambda c: ('[cast] redundant cast to %s' % jt(c), []),
]
JAVA_SRC = [
    lambda c: '    int %s = "%s";' % (c.w(), c.w()),
    lambda c: '    %s<%s> %s = new %s<>(%s);' % (c.T(), c.T(), c.w(), c.T(), c.w()),
    lambda c: '    return %s.%s(%s, %s);' % (c.w(), c.w(), c.w(), c.w()),
    lambda c: '    boolean error = true; int %s = error ? "%s" : 2;' % (c.w(), c.w()),
    lambda c: '    error: for (;;) { int %s = %s; break error; }' % (c.w(), c.w()),
    lambda c: '    src.%s.Main %s = new src.%s.Main();' % (c.pkg(), c.w(), c.pkg()),
    lambda c: '    String %s = "error: %s";' % (c.w(), c.w()),
    lambda c: '  %s %s(%s %s) { }' % (jt(c), c.w(), jt(c), c.w()),
    lambda c: '    final %s warning = (%s) %s; // error' % (c.T(), c.T(), c.w()),
]
JAVA_FILELESS = [
    'warning: [options] bootstrap class path not set in conjunction with -source 8',
    'warning: [options] system modules path not set in conjunction with -source 11',
]
JAVA_CRASH_HEAD = ('An exception has occurred in the compiler (17.0.9). Please file a bug against the Java compiler '
                   'via the Java bug reporting page (http://bugreport.java.com) after checking the Bug Database '
                   '(http://bugs.java.com) for duplicates. Include your program, the following diagnostic, and the '
                   'parameters passed to the Java compiler in your report. Thank you.')
JAVA_FRAMES = ['\tat jdk.compiler/com.sun.tools.javac.comp.Attr.visitApply(Attr.java:2563)',
               '\tat jdk.compiler/com.sun.tools.javac.tree.JCTree$JCMethodInvocation.accept(JCTree.java:1797)',
               '\tat jdk.compiler/com.sun.tools.javac.comp.Attr.attribTree(Attr.java:674)',
               '\tat jdk.compiler/com.sun.tools.javac.tree.TreeScanner.scan(TreeScanner.java:49)',
               '\tat jdk.compiler/com.sun.tools.javac.main.JavaCompiler.compile(JavaCompiler.java:947)',
               '\tat jdk.compiler/com.sun.tools.javac.main.Main.compile(Main.java:317)',
               '\tat jdk.compiler/com.sun.tools.javac.Main.main(Main.java:43)']


def java_crash(c):
    fr = [c.pick(JAVA_FRAMES[:4]) for _ in range(c.n(2, 12))] + JAVA_FRAMES[4:]
    if c.n(0, 2) == 0:   # form observed with javac 17 on a deeply nested expression
        return ['', '', 'The system is out of resources.', 'Consult the following stack trace for details.',
                'java.lang.StackOverflowError'] + fr
    exc = c.pick(['java.lang.NullPointerException: Cannot invoke "com.sun.tools.javac.code.Type.getTag()" because '
                  '"t" is null', 'java.lang.AssertionError', 'java.lang.AssertionError: Unexpected tree: %s' % c.w(),
                  'java.lang.IllegalStateException', 'java.lang.ClassCastException: class '
                  'com.sun.tools.javac.code.Type$1 cannot be cast to class com.sun.tools.javac.code.Type$ClassType',
                  'java.lang.IllegalArgumentException', 'java.lang.ArrayIndexOutOfBoundsException: Index 1 out of '
                  'bounds for length 1'])
    return [JAVA_CRASH_HEAD, exc] + fr


def kt(c):
    k = c.n(0, 7)
    if k <= 2:
        return c.pick(['Int', 'String', 'Boolean', 'Any', 'Any?', 'Long', 'Double', 'Unit', 'Nothing'])
    if k <= 5:
        return c.T()
    if k == 6:
        return '%s<%s>' % (c.T(), c.T())
    return '%s<out %s, %s<in %s>>' % (c.T(), c.T(), c.T(), c.pick(['Int', 'String']))


KOTLIN_ERRORS = [
    lambda c: ('type mismatch: inferred type is %s but %s was expected' % (kt(c), kt(c)), []),
    lambda c: ('unresolved reference: %s' % c.w(), []),
    lambda c: ('val cannot be reassigned', []),
    lambda c: ("a 'return' expression required in a function with a block body ('{...}')", []),
    lambda c: ("class '%s' is not abstract and does not implement abstract member public abstract fun %s(): %s "
               "defined in src.%s.%s" % (c.T(), c.w(), kt(c), c.pkg(), c.T()), []),
    lambda c: ("type argument is not within its bounds: should be subtype of '%s'" % kt(c), []),
    lambda c: ('none of the following functions can be called with the arguments supplied: ',
               ['public fun %s(%s: %s): %s defined in src.%s in file program.kt' % (c.w(), c.w(), kt(c), kt(c), c.pkg()),
                'public fun %s(%s: %s, error: %s): Unit defined in src.%s in file program.kt'
                % (c.w(), c.w(), kt(c), kt(c), c.pkg())]),
    lambda c: ("smart cast to '%s' is impossible, because '%s' is a mutable property that could have been changed "
               "by this time" % (kt(c), c.w()), []),
    lambda c: ("'when' expression must be exhaustive, add necessary 'else' branch", []),
    lambda c: ("return type of '%s' is not a subtype of the return type of the overridden member 'public abstract "
               "fun %s(): %s defined in src.%s.%s'" % (c.w(), c.w(), kt(c), c.pkg(), c.T()), []),
    lambda c: ('too many arguments for public final fun %s(): %s defined in src.%s.%s'
               % (c.w(), kt(c), c.pkg(), c.T()), []),
    lambda c: ('conflicting declarations: val %s: %s, val %s: %s' % (c.w(), kt(c), c.w(), kt(c)), []),
]
KOTLIN_WARNINGS = [
    lambda c: "variable '%s' is never used" % c.w(),
    lambda c: "parameter '%s' is never used" % c.w(),
    lambda c: 'unchecked cast: %s to %s' % (kt(c), kt(c)),
    lambda c: 'the expression is unused',
    lambda c: "unnecessary safe call on a non-null receiver of type %s" % kt(c),
    lambda c: "name shadowed: %s" % c.w(),
]
KOTLIN_SRC = [
    lambda c: '    val %s: Int = "%s"' % (c.w(), c.w()),
    lambda c: '    val error: %s = %s()' % (kt(c), c.w()),
    lambda c: '    return if (error) %s else %s' % (c.w(), c.w()),
    lambda c: '    %s(error = %s, %s = 1)' % (c.w(), c.w(), c.w()),
    lambda c: '    val %s = src.%s.%s<%s>(%s)' % (c.w(), c.pkg(), c.T(), kt(c), c.w()),
    lambda c: 'fun %s(%s: %s): %s = %s' % (c.w(), c.w(), kt(c), kt(c), c.w()),
    lambda c: '    var warning: %s? = null // error: none' % c.T(),
]
KOTLIN_FILELESS = [
    'warning: language version 1.9 is deprecated and its support will be removed in a future version of Kotlin',
    'warning: advanced option value is passed in an obsolete form. Please use the \'=\' character to specify the '
    'value: -Xjsr305=strict',
    'warning: classpath entry points to a non-existent location: /usr/share/kotlin/lib/annotations.jar',
]
KOTLIN_FRAMES = ['\tat org.jetbrains.kotlin.backend.common.CodegenUtil.reportBackendException(CodegenUtil.kt:253)',
                 '\tat org.jetbrains.kotlin.backend.jvm.codegen.FunctionCodegen.generate(FunctionCodegen.kt:50)',
                 '\tat org.jetbrains.kotlin.cli.jvm.K2JVMCompiler.doExecute(K2JVMCompiler.kt:43)',
                 '\tat org.jetbrains.kotlin.cli.common.CLICompiler.execImpl(CLICompiler.kt:98)',
                 '\tat org.jetbrains.kotlin.cli.common.CLITool.exec(CLITool.kt:79)',
                 '\tat java.base/java.lang.reflect.Method.invoke(Method.java:568)',
                 '\tat org.jetbrains.kotlin.preloading.Preloader.run(Preloader.java:87)',
                 '\tat org.jetbrains.kotlin.preloading.Preloader.main(Preloader.java:44)']


def kotlin_crash(c, path):
    # every kotlinc trace ends in the compiler's own entry points
    fr = [c.pick(KOTLIN_FRAMES) for _ in range(c.n(2, 10))] + KOTLIN_FRAMES[2:]
    k = c.n(0, 2)
    if k == 0:
        return ['exception: org.jetbrains.kotlin.backend.common.BackendException: Backend Internal error: '
                'Exception during IR lowering', 'File being compiled: %s' % path,
                'The root cause java.lang.RuntimeException was thrown at: org.jetbrains.kotlin.backend.jvm.codegen.'
                'FunctionCodegen.generate(FunctionCodegen.kt:50)'] + fr + \
               ['Caused by: java.lang.RuntimeException: Exception while generating code for:',
                'FUN name:%s visibility:public modality:FINAL <> () returnType:kotlin.Unit' % c.w(), ''] + fr[:3]
    if k == 1:
        return ['exception: org.jetbrains.kotlin.util.KotlinFrontEndException: Exception while analyzing expression '
                'at (%d,%d) in %s' % (c.n(1, 90), c.n(1, 60), path), ''] + fr
    return ['exception: java.lang.IllegalStateException: Expected some types'] + fr


GROOVY_ERRORS = [
    lambda c: '[Static type checking] - Cannot assign value of type %s to variable of type %s' % (gt(c), gt(c)),
    lambda c: '[Static type checking] - Cannot find matching method src.%s.%s#%s(%s). Please check if the declared '
              'type is correct and if the method exists.' % (c.pkg(), c.T(), c.w(), gt(c)),
    lambda c: '[Static type checking] - Incompatible generic argument types. Cannot assign %s to: %s' % (gt(c), gt(c)),
    lambda c: '[Static type checking] - Cannot return value of type %s on method returning type %s' % (gt(c), gt(c)),
    lambda c: '[Static type checking] - The variable [%s] is undeclared.' % c.w(),
    lambda c: '[Static type checking] - No such property: %s for class: src.%s.%s' % (c.w(), c.pkg(), c.T()),
    lambda c: "Can't have an abstract method in a non-abstract class. The class 'src.%s.%s' must be declared "
              "abstract or the method '%s %s()' must be implemented." % (c.pkg(), c.T(), gt(c), c.w()),
    lambda c: 'unable to resolve class %s' % c.T(),
    lambda c: 'The return type of %s %s() in src.%s.%s is incompatible with %s in src.%s.%s'
              % (gt(c), c.w(), c.pkg(), c.T(), gt(c), c.pkg(), c.T()),
    lambda c: '[Static type checking] - Cannot call src.%s.%s#%s(%s) with arguments [%s]'
              % (c.pkg(), c.T(), c.w(), gt(c), gt(c)),
]
GROOVY_SRC = [
    lambda c: '    int %s = "%s"' % (c.w(), c.w()),
    lambda c: '    def error = [%s: 1, %s: 2]' % (c.w(), c.w()),
    lambda c: '    %s<%s> %s = new %s<%s>(%s)' % (c.T(), c.T(), c.w(), c.T(), c.T(), c.w()),
    lambda c: '    return error ? %s : %s' % (c.w(), c.w()),
    lambda c: '    src.%s.Main.%s(%s)' % (c.pkg(), c.w(), c.w()),
    lambda c: '       %s' % c.w(),
    lambda c: '    final %s warning = (%s) %s // error: %s' % (c.T(), c.T(), c.w(), c.w()),
]
GROOVY_JVM_WARNING = [
    'WARNING: An illegal reflective access operation has occurred',
    'WARNING: Illegal reflective access by org.codehaus.groovy.reflection.CachedClass '
    '(file:/opt/groovy/lib/groovy-2.5.14.jar) to method java.lang.Object.finalize()',
    'WARNING: Please consider reporting this to the maintainers of org.codehaus.groovy.reflection.CachedClass',
    'WARNING: Use --illegal-access=warn to enable warnings of further illegal reflective access operations',
    'WARNING: All illegal access operations will be denied in a future release']
GROOVY_FRAMES = [
    '\tat org.codehaus.groovy.control.CompilationUnit$IPrimaryClassNodeOperation.doPhaseOperation(CompilationUnit.java:905)',
    '\tat org.codehaus.groovy.control.CompilationUnit.processPhaseOperations(CompilationUnit.java:654)',
    '\tat org.codehaus.groovy.control.CompilationUnit.compile(CompilationUnit.java:628)',
    '\tat org.codehaus.groovy.tools.FileSystemCompiler.compile(FileSystemCompiler.java:311)',
    '\tat org.codehaus.groovy.tools.FileSystemCompiler.main(FileSystemCompiler.java:189)',
    '\tat java.base/jdk.internal.reflect.NativeMethodAccessorImpl.invoke0(Native Method)',
    '\tat java.base/java.lang.reflect.Method.invoke(Method.java:568)',
    '\tat org.codehaus.groovy.tools.GroovyStarter.rootLoader(GroovyStarter.java:112)',
    '\tat org.codehaus.groovy.tools.GroovyStarter.main(GroovyStarter.java:130)']
GROOVY_STC_FRAMES = [
    '\tat org.codehaus.groovy.transform.stc.StaticTypeCheckingVisitor.isTypeSource(StaticTypeCheckingVisitor.java:4189)',
    '\tat org.codehaus.groovy.transform.stc.StaticTypeCheckingVisitor.visitTernaryExpression(StaticTypeCheckingVisitor.java:4136)',
    '\tat org.codehaus.groovy.ast.expr.TernaryExpression.visit(TernaryExpression.java:44)',
    '\tat org.codehaus.groovy.ast.GenericsType.toString(GenericsType.java:141)']


def gt(c):
    k = c.n(0, 7)
    if k <= 2:
        return c.pick(['int', 'java.lang.String', 'java.lang.Integer', 'java.lang.Object', 'boolean',
                       'java.lang.Double', 'long'])
    if k <= 4:
        return 'src.%s.%s' % (c.pkg(), c.T())
    if k == 5:
        return 'src.%s.%s<%s>' % (c.pkg(), c.T(), c.pick(['java.lang.Double', 'java.lang.Float', '?']))
    return 'src.%s.%s<java.lang.Double, ? extends java.lang.Object>' % (c.pkg(), c.T())


def groovy_crash(c, path):
    k = c.n(0, 3)
    if k <= 1:    # README fault 1050
        phase = c.pick(['instruction selection', 'class generation', 'semantic analysis'])
        bug = "BUG! exception in phase '%s' in source unit '%s' unexpected NullPointerException" % (phase, path)
        return ['>>> a serious error occurred: ' + bug, '>>> stacktrace:', bug] + GROOVY_FRAMES + \
               ['Caused by: java.lang.NullPointerException: Cannot invoke "org.codehaus.groovy.ast.stmt.Statement.'
                'visit(org.codehaus.groovy.ast.GroovyCodeVisitor)" because the return value of '
                '"org.codehaus.groovy.ast.MethodNode.getCode()" is null'] + \
               [c.pick(GROOVY_STC_FRAMES) for _ in range(c.n(1, 8))] + ['\t... 14 more']
    if k == 2:    # StackOverflowError inside the compiler
        fr = [c.pick(GROOVY_STC_FRAMES) for _ in range(c.n(3, 20))]
        return ['Exception in thread "main" java.lang.StackOverflowError'] + fr
    # deep recursion inside the JDK only: no groovy frame among the printed (innermost) frames
    fr = ['\tat java.base/java.util.regex.Pattern$Loop.match(Pattern.java:4801)',
          '\tat java.base/java.util.regex.Pattern$GroupTail.match(Pattern.java:4731)',
          '\tat java.base/java.util.regex.Pattern$BranchConn.match(Pattern.java:4582)'] * c.n(1, 6)
    return ['java.lang.StackOverflowError'] + fr


SCALA_KINDS = [('[E007] ', 'Type Mismatch '), ('[E006] ', 'Not Found '), ('[E008] ', 'Not Found '), ('', ''),
               ('[E057] ', 'Type Mismatch '), ('[E134] ', 'Type '), ('[E164] ', 'Declaration '), ('[E172] ', 'Type '),
               ('[E050] ', 'Type '), ('[E040] ', 'Syntax ')]


def sct(c):
    k = c.n(0, 7)
    if k <= 2:
        return c.pick(['Int', 'String', 'Boolean', 'Any', 'Long', 'Double', 'Unit', 'Nothing'])
    if k <= 5:
        return c.T()
    if k == 6:
        return '%s[%s]' % (c.T(), c.T())
    return '%s[? <: %s, %s[%s]]' % (c.T(), c.T(), c.T(), c.pick(['Int', 'String']))


SCALA_ERRORS = [   # (kind index, message lines)
    lambda c: (0, ['Found:    %s' % (c.pick(['("%s" : String)' % c.w(), '(%s : %s)' % (c.w(), sct(c)), sct(c)])),
                   'Required: %s' % sct(c)] + c.pick([[], ['', 'longer explanation available when compiling with `-explain`']])),
    lambda c: (1, ['Not found: %s' % c.w()] + c.pick([[], ['', 'longer explanation available when compiling with `-explain`']])),
    lambda c: (2, ['value %s is not a member of %s' % (c.w(), sct(c))]),
    lambda c: (3, ['error overriding method %s in class %s of type (): %s;' % (c.w(), c.T(), sct(c)),
                   '  method %s of type (): %s has incompatible type' % (c.w(), sct(c))]),
    lambda c: (4, ['Type argument %s does not conform to upper bound %s' % (sct(c), sct(c))]),
    lambda c: (5, ['None of the overloaded alternatives of method %s in class %s with types' % (c.w(), c.T()),
                   ' (%s: %s): Unit' % (c.w(), sct(c)), ' (error: %s): Unit' % sct(c),
                   'match arguments (%s)' % sct(c)]),
    lambda c: (6, ['error overriding method %s in trait %s of type (%s: %s): %s;' % (c.w(), c.T(), c.w(), sct(c), sct(c)),
                   '  method %s of type (%s: %s): %s has incompatible type' % (c.w(), c.w(), sct(c), sct(c))]),
    lambda c: (7, ['No given instance of type %s was found for parameter %s of method %s in object %s'
                   % (sct(c), c.w(), c.w(), c.T())]),
    lambda c: (8, ['method %s in class %s does not take parameters' % (c.w(), c.T())]),
    lambda c: (3, ['class %s needs to be abstract, since def %s: %s in trait %s is not defined'
                   % (c.T(), c.w(), sct(c), c.T())]),
    lambda c: (9, ["')' expected, but identifier found"]),
]
SCALA_WARN_KINDS = ['[E129] Potential Issue Warning', 'Deprecation Warning', 'Unchecked Warning', 'Feature Warning',
                    'Warning', '[E029] Pattern Match Exhaustivity Warning']
SCALA_WARNINGS = [
    lambda c: ['A pure expression does nothing in statement position; you may be omitting necessary parentheses'],
    lambda c: ['method %s in class %s is deprecated since 1.0: use %s' % (c.w(), c.T(), c.w())],
    lambda c: ['the type test for %s cannot be checked at runtime' % sct(c)],
    lambda c: ['match may not be exhaustive.', '', 'It would fail on pattern case: %s(_)' % c.T()],
    lambda c: ['unused local definition: error'],
]
SCALA_SRC = [
    lambda c: '  val %s: Int = "%s"' % (c.w(), c.w()),
    lambda c: '  val error: %s[%s] = new %s[%s](%s)' % (c.T(), sct(c), c.T(), sct(c), c.w()),
    lambda c: '  def %s(%s: %s): %s = if (error) %s else %s' % (c.w(), c.w(), sct(c), sct(c), c.w(), c.w()),
    lambda c: '  %s(error = %s - 1)' % (c.w(), c.w()),
    lambda c: '  val %s = (x: Int) => x - %s.size' % (c.w(), c.w()),
    lambda c: '  src.%s.Main.%s(%s)' % (c.pkg(), c.w(), c.w()),
    lambda c: '  class %s[-T, +Error] extends %s[T] // Error: none' % (c.T(), c.T()),
]
SCALA_FRAMES = ['\tat scala.runtime.Scala3RunTime$.assertFailed(Scala3RunTime.scala:8)',
                '\tat dotty.tools.dotc.core.Types$TypeBounds.<init>(Types.scala:4918)',
                '\tat dotty.tools.dotc.typer.Typer.typedUnadapted(Typer.scala:2929)',
                '\tat dotty.tools.dotc.typer.TyperPhase.typeCheck$$anonfun$1(TyperPhase.scala:44)',
                '\tat dotty.tools.dotc.Run.compileUnits$$anonfun$1(Run.scala:262)',
                '\tat dotty.tools.dotc.Driver.doCompile(Driver.scala:39)',
                '\tat dotty.tools.dotc.Driver.main(Driver.scala:241)',
                '\tat dotty.tools.dotc.Main.main(Main.scala)']


def scala_crash(c, path):
    fr = [c.pick(SCALA_FRAMES[:5]) for _ in range(c.n(2, 10))] + SCALA_FRAMES[5:]
    head = c.pick([
        ['exception occurred while typechecking %s' % path, 'exception occurred while compiling %s' % path,
         'Exception in thread "main" java.lang.AssertionError: assertion failed: %s' % c.w()],
        ['exception occurred while compiling %s' % path,
         'java.lang.AssertionError: assertion failed: no owner from %s/ <none> in %s while compiling %s'
         % (c.w(), c.w(), path)],
        ['Exception in thread "main" java.lang.StackOverflowError']])
    return head + fr


JVM_NOTE = 'Picked up JAVA_TOOL_OPTIONS: -Xmx8g'


# ------------------------------------------------------------------ block builders
def caret(src, c):
    lead = len(src) - len(src.lstrip())
    return ' ' * c.n(lead, max(lead, len(src) - 1)) + '^'


def mk_block(comp, c, path, kind, tpl, srcs):
    """One diagnostic block -> dict(kind, file, head, lines, msg, multi, qerr)."""
    line = c.n(1, 400)
    col = c.n(1, 80)
    src = c.pick(srcs)(c)
    b = {'kind': kind, 'file': path, 'multi': False}
    if comp == 'java':
        msg, det = tpl(c)
        head = '%s:%d: %s: %s' % (path, line, kind, msg)
        lines = [head, src, caret(src, c)] + det
        b.update(head=head, lines=lines, msg='%d: error: %s' % (line, msg), first=msg, multi=bool(det))
    elif comp == 'kotlin':
        if kind == 'error':
            msg, det = tpl(c)
        else:
            msg, det = tpl(c), []
        head = '%s:%d:%d: %s: %s' % (path, line, col, kind, msg)
        lines = [head] + det + [src, caret(src, c)]
        b.update(head=head, lines=lines, msg=msg, first=msg, multi=bool(det))
    elif comp == 'groovy':
        msg = tpl(c)
        head = '%s: %d: %s' % (path, line, msg)
        lines = [head, ' @ line %d, column %d.' % (line, col), '   ' + src, '   ' + caret(src, c)]
        b.update(head=head, lines=lines, first=msg, multi=True,
                 msg=' %d: %s\n%s' % (line, msg, '\n'.join(lines[1:])))
    else:
        if kind == 'error':
            ki, body = tpl(c)
            eid, kd = SCALA_KINDS[ki]
            title = '%s%sError: %s:%d:%d' % (eid, kd, path, line, col)
        else:
            body = tpl(c)
            title = '%s: %s:%d:%d' % (c.pick(SCALA_WARN_KINDS), path, line, col)
        head = '-- %s %s' % (title, '-' * max(80 - len(title) - 4, c.n(1, 5)))
        gutter = ' ' * len(str(line)) + ' |'
        lead = len(src) - len(src.lstrip())
        pos = c.n(lead, max(lead, len(src) - 1))
        lines = [head, '%d |%s' % (line, src), gutter + ' ' * pos + '^' * c.n(1, 4)]
        lines += [(gutter + ' ' * pos + ln) if ln else gutter for ln in body]
        b.update(head=head, lines=lines, first=body[0], multi=len(body) > 1,
                 msg='\n'.join(lines[1:]) + '\n', wide=len(title) + 4 > 80)
    b['qerr'] = 'error' in src.lower()
    return b


def render(comp, plan):
    """plan: dict(pre=[lines], blocks=[block], post=[lines], crash=[lines]|None, crash_pos) -> text."""
    out = list(plan['pre'])
    crash = plan.get('crash')
    if crash and plan['crash_pos'] == 'start':
        out += crash
    blocks = plan['blocks']
    if comp == 'groovy':
        if blocks:
            out.append('org.codehaus.groovy.control.MultipleCompilationErrorsException: startup failed:')
            for b in blocks:
                out += b['lines'] + ['']
    else:
        for b in blocks:
            out += b['lines']
    out += plan['post']
    if crash and plan['crash_pos'] == 'end':
        out += crash
    return '\n'.join(out) + '\n' if out else ''


def make_filters(comp, c, blocks, text, nfilters):
    """Whole-line patterns built from head lines of diagnostics; a pattern is
    kept only if every output line it matches is a diagnostic head line and,
    for errors, the match does not depend on the path part."""
    heads = {b['head'] for b in blocks}
    lines = text.split('\n')
    out = []
    cands = [b for b in blocks if b['kind'] == 'error'] * 3 + [b for b in blocks if b['kind'] == 'warning']
    if not cands:
        return out
    for _ in range(nfilters):
        b = c.pick(cands)
        if comp == 'scala':
            m = re.match(r'-- ((\[E\d+\] )?([A-Za-z ]*?(Error|Warning))): ', b['head'])
            title = m.group(1)
            frag = c.pick([title, m.group(3)] + ([m.group(2).strip()] if m.group(2) else []))
            shape = c.pick(['.*%s.*', '.*%s: .*', '-- .*%s.*'])
        else:
            first = b['first']
            toks = [t for t in re.split(r'[^A-Za-z]+', first) if len(t) >= 6]
            opts = [first, first[:max(8, len(first) // 2)]]
            if toks:
                opts.append(c.pick(toks))
            if ':' in first and len(first.split(':')[0]) >= 6:
                opts.append(first.split(':')[0])
            frag = c.pick(opts)
            shape = c.pick(['.*%s.*', '.*%s.*', '.*%s.*\\n?'] + (['.*error: %s.*'] if comp in ('java', 'kotlin') and
                                                                  first.startswith(frag) and b['kind'] == 'error'
                                                                  else []))
        pat = shape % re.escape(frag)
        try:
            rx = re.compile(pat)
        except re.error:
            continue
        ok = True
        for ln in lines:
            if rx.search(ln) and ln not in heads:
                ok = False
                break
        if ok and comp != 'scala':
            # the verdict must not hinge on the path: searching the message text alone agrees
            frx = re.compile(re.escape(frag))
            for bb in blocks:
                if bool(rx.search(bb['head'])) != bool(frx.search(bb['first'])):
                    ok = False
                    break
        if ok and pat not in out:
            out.append(pat)
    return out


def batch_strategy(comp):
    from hypothesis import strategies as st
    words, awk = pool()
    tmpname = st.text(alphabet='abcdefghijklmnopqrstuvwxyz0123456789_', min_size=8, max_size=8)
    word = st.one_of(st.sampled_from(words), st.sampled_from(words), st.sampled_from(awk))
    errs = {'java': JAVA_ERRORS, 'kotlin': KOTLIN_ERRORS, 'groovy': GROOVY_ERRORS, 'scala': SCALA_ERRORS}[comp]
    warns = {'java': JAVA_WARNINGS, 'kotlin': KOTLIN_WARNINGS, 'groovy': [], 'scala': SCALA_WARNINGS}[comp]
    srcs = {'java': JAVA_SRC, 'kotlin': KOTLIN_SRC, 'groovy': GROOVY_SRC, 'scala': SCALA_SRC}[comp]

    @st.composite
    def batches(draw):
        seed = draw(st.integers(0, 2 ** 32 - 1))
        tmp = '/tmp/tmp' + draw(tmpname)
        nfiles = draw(st.integers(1, 12))
        pkgs = draw(st.lists(word, min_size=nfiles, max_size=nfiles, unique=True))
        c = Ctx(random.Random(seed), pkgs)
        files = ['%s/src/%s/%s' % (tmp, p, FILENAME[comp]) for p in pkgs]
        per_file = []
        for path in files:
            ne = draw(st.sampled_from([0, 0, 0, 1, 1, 2, 3, 4]))
            nw = draw(st.sampled_from([0, 0, 1, 2])) if warns else 0
            ds = [mk_block(comp, c, path, 'error', errs[draw(st.integers(0, len(errs) - 1))], srcs) for _ in range(ne)]
            ds += [mk_block(comp, c, path, 'warning', warns[draw(st.integers(0, len(warns) - 1))], srcs)
                   for _ in range(nw)]
            c.r.shuffle(ds)
            per_file.append(ds)
        order = draw(st.sampled_from(['grouped', 'grouped', 'file-shuffled', 'interleaved']))
        if order == 'grouped':
            blocks = [b for ds in per_file for b in ds]
        elif order == 'file-shuffled':
            pf = list(per_file)
            c.r.shuffle(pf)
            blocks = [b for ds in pf for b in ds]
        else:
            # any interleaving that keeps the order within a file
            queues = [list(ds) for ds in per_file if ds]
            blocks = []
            while queues:
                q = c.pick(queues)
                blocks.append(q.pop(0))
                if not q:
                    queues.remove(q)
        nerr = sum(1 for b in blocks if b['kind'] == 'error')
        nwarn = sum(1 for b in blocks if b['kind'] == 'warning')
        pre, post, extras = [], [], []
        if c.n(0, 9) == 0:
            pre.append(JVM_NOTE)
            extras.append('jvm-note')
        fileless = c.n(0, 3) == 0
        notes = c.n(0, 2) == 0
        summary = c.n(0, 5) > 0
        if comp == 'java':
            if fileless:
                pre.append(c.pick(JAVA_FILELESS))
                extras.append('fileless-warning')
            if notes:
                k = c.n(0, 3)
                who = c.pick(files) + ' uses' if c.n(0, 1) else 'Some input files use'
                if k in (0, 2):
                    post += ['Note: %s or override%s a deprecated API.' % (who, 's' if who.endswith('uses') else ''),
                             'Note: Recompile with -Xlint:deprecation for details.']
                if k in (1, 2):
                    post += ['Note: %s unchecked or unsafe operations.' % who,
                             'Note: Recompile with -Xlint:unchecked for details.']
                if k == 3:
                    post += ['Note: Some messages have been simplified; rerun with -Xdiags:verbose to get full output']
                extras.append('note')
            if summary:
                if nerr:
                    post.append('%d error%s' % (nerr, '' if nerr == 1 else 's'))
                nw_all = nwarn + (1 if fileless else 0)
                if nw_all:
                    post.append('%d warning%s' % (nw_all, '' if nw_all == 1 else 's'))
        elif comp == 'kotlin':
            if fileless:
                pre.append(c.pick(KOTLIN_FILELESS))
                extras.append('fileless-warning')
        elif comp == 'groovy':
            if fileless or notes:
                pre += GROOVY_JVM_WARNING
                extras.append('jvm-warning')
            if blocks:
                post.append('%d error%s' % (nerr, '' if nerr == 1 else 's'))
        else:
            if summary:
                if nerr:
                    post.append('%d error%s found' % (nerr, '' if nerr == 1 else 's'))
                if nwarn:
                    post.append('%d warning%s found' % (nwarn, '' if nwarn == 1 else 's'))
        crash = None
        crash_pos = None
        if c.n(0, 7) == 0:
            victim = c.pick(files)
            crash = {'java': lambda: java_crash(c), 'kotlin': lambda: kotlin_crash(c, victim),
                     'groovy': lambda: groovy_crash(c, victim), 'scala': lambda: scala_crash(c, victim)}[comp]()
            crash_pos = draw(st.sampled_from(['end', 'end', 'alone']))
            if comp == 'groovy':
                crash_pos = 'alone'       # groovyc prints either its error list or the internal error
            if crash_pos == 'alone':
                blocks, post = [], []
                pre = [p for p in pre if p == JVM_NOTE or p.startswith('WARNING:')]
                crash_pos = 'start'
            else:
                post = []                  # the summary is not reached
        plan = {'pre': pre, 'blocks': blocks, 'post': post, 'crash': crash, 'crash_pos': crash_pos}
        text = render(comp, plan)
        nf = draw(st.sampled_from([0, 0, 0, 1, 1, 2]))
        filters = make_filters(comp, c, blocks, text, nf) if nf and blocks else []
        rxs = [re.compile(p) for p in filters]
        errors = []
        for b in blocks:
            if b['kind'] == 'error':
                errors.append({'file': b['file'], 'msg': b['msg'], 'head': b['head'],
                               'filtered': any(rx.search(b['head']) for rx in rxs)})
        feats = set(extras)
        feats.add('order:' + order)
        if filters:
            feats.add('filters')
        if any(e['filtered'] for e in errors):
            feats.add('filter-hits-error')
        if crash:
            feats.add('crash')
            feats.add('crash-with-diagnostics' if blocks else 'crash-alone')
        if any(b['multi'] for b in blocks):
            feats.add('multi-line-message')
        if any(b['qerr'] for b in blocks):
            feats.add('quoted-error-word')
        if any(AWK_RE.search(p) for p in pkgs):
            feats.add('awkward-package-word')
        if any(b.get('wide') for b in blocks):
            feats.add('scala-title-wider-than-80')
        seen, inter = [], False
        for b in blocks:
            if b['file'] in seen and seen[-1] != b['file']:
                inter = True
            seen.append(b['file'])
        if inter:
            feats.add('files-interleaved')
        if any(b['kind'] == 'warning' for b in blocks):
            feats.add('file-warning')
        return {'compiler': comp, 'output': text, 'files': files, 'root': tmp + '/src', 'filters': filters,
                'truth': {'crash': bool(crash), 'errors': errors,
                          'warn_files': sorted({b['file'] for b in blocks if b['kind'] == 'warning'}),
                          'warn_heads': [b['head'] for b in blocks if b['kind'] == 'warning'],
                          'has_note': bool(pre) or any(p.startswith('Note:') for p in post) or
                          any(b['kind'] == 'warning' for b in blocks)},
                'features': sorted(feats)}
    return batches()


# ------------------------------------------------------------------ judge
_classes = None


def compiler_class(comp):
    global _classes
    if _classes is None:
        boot.init_types_only()
        from src.compilers.java import JavaCompiler
        from src.compilers.kotlin import KotlinCompiler
        from src.compilers.groovy import GroovyCompiler
        from src.compilers.scala import ScalaCompiler
        _classes = {'java': JavaCompiler, 'kotlin': KotlinCompiler, 'groovy': GroovyCompiler, 'scala': ScalaCompiler}
    return _classes[comp]


def analyse(comp, root, output, filters):
    """-> ('ok', failed-as-plain-dict-or-None, crash_msg) | ('exc', repr)."""
    try:
        obj = compiler_class(comp)(root, list(filters))
        failed, _ = obj.analyze_compiler_output(output)
        plain = None if failed is None else {str(k): [v if isinstance(v, str) else repr(v) for v in vs]
                                             for k, vs in failed.items()}
        return ('ok', plain, obj.crash_msg)
    except Exception as e:   # the analysis is total on text
        return ('exc', '%s: %s' % (type(e).__name__, e), None)


def same_msg(comp, got, want):
    if comp == 'scala':
        # the message group is defined as "up to the next dash"
        cut = want.split('-')[0]
        return bool(got) and got.startswith(cut) and (len(cut) > 0)
    return got == want


def case_key(case):
    return hashlib.sha1(json.dumps([case['compiler'], case['output'], case['filters']]).encode()).hexdigest()[:20]


def truth_summary(case):
    t = case['truth']
    exp = {}
    for e in t['errors']:
        if not e['filtered']:
            exp.setdefault(e['file'], []).append(e['msg'])
    return exp


def judge(case, col):
    comp = case['compiler']
    out = case['output']
    t = case['truth']
    files = case['files']
    exp = truth_summary(case)
    filt = {}
    for e in t['errors']:
        if e['filtered']:
            filt.setdefault(e['file'], []).append(e['msg'])
    failing = len(exp)
    passing = len([f for f in files if f not in exp])
    nontrivial = failing >= 2 and passing >= 1 and bool(t.get('has_note'))
    if nontrivial:
        col.feature('nontrivial:' + comp + (':real' if case.get('real') else ''))
    col.case(key=case_key(case), nontrivial=nontrivial,
             sample=lambda: {'compiler': comp, 'output_head': out[:600], 'filters': case['filters'],
                             'truth': {'crash': t['crash'], 'failed': {f: len(m) for f, m in exp.items()},
                                       'filtered_away': {f: len(m) for f, m in filt.items()},
                                       'passing': passing}})
    st, failed, crash_msg = analyse(comp, case['root'], out, case['filters'])

    def bad(rule, **detail):
        detail['compiler'] = comp
        detail['filters'] = case['filters']
        col.violation('C14/%s/%s' % (comp, rule), detail, case, size=len(out))

    if st == 'exc':
        bad('raises', exception=failed)
        return
    if t['crash']:
        if not crash_msg or failed:
            bad('crash-not-detected', crash_msg_set=bool(crash_msg), failed=failed,
                trace_head=[ln for ln in out.split('\n') if ln.startswith('\tat ')][:2])
        return
    if crash_msg or failed is None:
        bad('crash-false-positive', crash_msg_head=(crash_msg or '')[:300])
        return
    nofilter = None

    def without_filters():
        nonlocal nofilter
        if nofilter is None:
            s2, f2, _ = analyse(comp, case['root'], out, [])
            nofilter = f2 if s2 == 'ok' and f2 is not None else {}
        return nofilter

    all_err = {}
    for e in t['errors']:
        all_err.setdefault(e['file'], []).append(e)
    # one-to-one matching per file
    extras = {}      # file -> got messages nobody expected
    lacking = {}     # file -> expected messages not returned
    for f in set(exp) | set(failed):
        g = list(failed.get(f, []))
        lack = []
        for w in exp.get(f, []):
            hit = next((i for i, x in enumerate(g) if same_msg(comp, x, w)), None)
            if hit is None:
                lack.append(w)
            else:
                g.pop(hit)
        if g:
            extras[f] = g
        if lack:
            lacking[f] = lack
    if not extras and not lacking:
        return

    def owner_of(msg, but):
        for f2, es in all_err.items():
            if f2 != but:
                for e in es:
                    if same_msg(comp, msg, e['msg']):
                        return f2, e['filtered']
        return None, None

    for f, lack in lacking.items():
        moved_to = [f2 for f2, g in extras.items() if f2 != f and any(same_msg(comp, x, w) for x in g for w in lack)]
        if moved_to:
            bad('moved-message', file=f, found_under=moved_to, messages=lack[:3])
        elif case['filters'] and len(without_filters().get(f, [])) > len(failed.get(f, [])):
            bad('filter-removed-too-much', file=f, lost=lack[:3], returned=failed.get(f))
        elif f not in failed:
            bad('missing-file', file=f, expected_messages=lack[:3], returned_files=sorted(failed))
        elif len(failed[f]) < len(exp[f]):
            bad('dropped-message', file=f, lost=lack[:3], returned=failed[f][:5])
        else:
            bad('message-text', file=f, expected=lack[:3], returned=extras.get(f, failed[f])[:3])
    for f, g in extras.items():
        for x in g[:2]:
            if any(same_msg(comp, x, w) for w in filt.get(f, [])):
                bad('filtered-message-kept', file=f, message=x[:300])
            elif owner_of(x, f)[0] is not None:
                if f not in lacking:     # otherwise already reported from the losing side
                    bad('moved-message', file=f, belongs_to=owner_of(x, f)[0], message=x[:300])
            elif f in filt and f not in exp:
                bad('filtered-message-kept', file=f, message=x[:300], note='every error of the file is filtered')
            elif f not in files:
                bad('extra-file', file=f, message=x[:300], note='not a file of the batch')
            elif f in t.get('warn_files', []) and f not in all_err:
                bad('warning-counted', file=f, message=x[:300])
            elif f not in exp:
                bad('extra-file', file=f, message=x[:300])
            elif f in lacking:
                pass                     # reported as message-text / dropped-message above
            elif f in filt:
                bad('filtered-message-kept', file=f, message=x[:300], note='more messages than unfiltered errors')
            else:
                bad('extra-message', file=f, message=x[:300], expected=exp[f][:4])


def fragment_probe(case, col):
    """Not judged: what happens with patterns that match only a part of the
    head line (the same literals without the surrounding .*)."""
    if not case['filters'] or case['truth']['crash']:
        return
    bare = []
    for p in case['filters']:
        m = re.match(r'^(?:-- )?\.\*(?:error: )?(.*?)(?:: )?\.\*(?:\\n\?)?$', p)
        if m:
            bare.append(m.group(1))
    if not bare:
        return
    st, failed, _ = analyse(case['compiler'], case['root'], case['output'], bare)
    if st != 'ok' or failed is None:
        return
    col.add_extra('info_fragment_only_pattern_batches')
    exp = truth_summary(case)
    kept = [f for f in failed if f not in exp]
    if kept:
        col.add_extra('info_fragment_only_pattern_batches_where_a_fully_filtered_file_is_still_reported')


# ------------------------------------------------------------------ real javac leg
REAL_OK = ['int ok%d(int a) { return a + %d; }', 'String name%d() { return "w%d"; }',
           'List<String> list%d() { List<String> l = new ArrayList<>(); l.add("%d"); return l; }',
           'boolean error%d(boolean warning) { return warning ? true : %d > 0; }']
REAL_ERR = [   # every member yields exactly attribution-phase errors
    'int bad%d() { int x = "s%d"; return x; }',
    'void bad%d() { undefinedCall(%d); }',
    'String bad%d() { return %d; }',
    'void bad%d() { Strin y%d = null; }',
    'void bad%d() { String s = id("abc%d"); }',
    'void bad%d() { boolean error = true; int y = error ? "a%d" : 2; }',
    'void bad%d() { List<String> l = new ArrayList<Integer>(%d); }',
    'void bad%d(int a) { bad%d("x", 1, 2.0); }',
    'void bad%d() { error: for (;;) { int z = "q%d"; break error; } }',
    'void bad%d() { Function<Integer, String> f = (Integer i) -> i + %d; }',
    'void bad%d() { Object error = new Object(); error.warning(%d); }',
    'void bad%d() { int n = true + %d; }',
]
REAL_WARN = [
    'void lint%d() { List raw = new ArrayList(); raw.add("x%d"); }',
    'void lint%d() { Date d = new Date(1, 2, %d); }',
    'int lint%d(int x) { switch (x) { case 1: x++; case 2: x -= %d; } return x; }',
    'void lint%d() { List<String> l = (List<String>) (Object) null; int k = %d; }',
]


def java_source(pkg, members):
    return ('package src.%s;\n\nimport java.util.*;\nimport java.util.function.*;\n\nclass Main {\n'
            '  static <T extends Number> T id(T x) { return x; }\n%s}\n'
            % (pkg, ''.join('  %s\n' % m for m in members)))


def real_strategy():
    from hypothesis import strategies as st
    words, awk = pool()
    ok_words = [w for w in words if w not in JAVA_RESERVED]
    ok_awk = [w for w in awk if w not in JAVA_RESERVED]
    word = st.one_of(st.sampled_from(ok_words), st.sampled_from(ok_awk))

    @st.composite
    def real_batches(draw):
        n = draw(st.integers(2, 5))
        pkgs = draw(st.lists(word, min_size=n, max_size=n, unique=True))
        files = []
        for i, p in enumerate(pkgs):
            kind = draw(st.sampled_from(['ok', 'ok', 'err', 'err', 'err', 'warn']))
            members = [REAL_OK[draw(st.integers(0, len(REAL_OK) - 1))] % (90 + i, i)]
            if kind == 'err':
                for j in range(draw(st.integers(1, 3))):
                    members.append(REAL_ERR[draw(st.integers(0, len(REAL_ERR) - 1))] % (10 * i + j, j))
                if draw(st.booleans()):
                    members.append(REAL_WARN[draw(st.integers(0, len(REAL_WARN) - 1))] % (70 + i, i))
            elif kind == 'warn':
                for j in range(draw(st.integers(1, 2))):
                    members.append(REAL_WARN[draw(st.integers(0, len(REAL_WARN) - 1))] % (10 * i + j, j))
            random.Random(draw(st.integers(0, 9999))).shuffle(members)
            files.append({'pkg': p, 'kind': kind, 'text': java_source(p, members)})
        return {'files': files, 'xlint': draw(st.integers(0, 2)) == 0, 'filter': draw(st.integers(0, 3)) == 0,
                'pick': draw(st.integers(0, 1000))}
    return real_batches()


def run_real_batch(b, col, crash_batch=False):
    from vlib import jd
    tmp = tempfile.mkdtemp()
    try:
        root = os.path.join(tmp, 'src')
        paths = []
        for f in b['files']:
            d = os.path.join(root, f['pkg'])
            os.makedirs(d)
            p = os.path.join(d, 'Main.java')
            with open(p, 'w') as fh:
                fh.write(f['text'])
            paths.append(p)
        cmd = compiler_class('java')(root).get_compiler_cmd()
        if b['xlint']:
            cmd = ['-Xlint:all' if a == '-nowarn' else a for a in cmd]
        flags = cmd[1:-1]
        # reference: every file on its own
        alone = {}
        warn_files = []
        any_note = False
        todo = [p for p, f in zip(paths, b['files']) if not f.get('skip_alone')]
        col.add_extra('real_javac_runs')
        alone_out = jd.compile_each_alone(flags, todo, tmp)
        for p in paths:
            if p not in alone_out:
                alone[p] = None
                continue
            rc, text = alone_out[p]
            pr = jd.parse(text)
            col.add_extra('real_single_file_compilations')
            if jd.crashed(pr):
                alone[p] = None
                continue
            if any(e['path'] != p for e in pr['errors'] + pr['warnings']):
                raise RuntimeError('javac on %s alone reports another file (harness): %s' % (p, text[:500]))
            if pr['summary'].get('error', 0) != len(pr['errors']) or (rc == 0) != (not pr['errors']):
                raise RuntimeError('JD and javac disagree on the number of errors (harness): %r' % text[:800])
            alone[p] = [(e['line'], e['msg']) for e in pr['errors']]
            if pr['warnings']:
                warn_files.append(p)
            if pr['notes'] or pr['warnings']:
                any_note = True
        rc, out = jd.run_shell(cmd)
        col.add_extra('real_javac_runs')
        pb = jd.parse(out)
        crash = jd.crashed(pb)
        if crash_batch and not crash:
            col.add_extra('real_crash_batch_did_not_crash')
        if crash:
            col.feature('real:crash')
        ref = {p: v for p, v in alone.items() if v}
        batch_view = {p: [(ln, m) for ln, m in v] for p, v in jd.errors_by_file(pb).items()}
        if not crash and {p: sorted(v) for p, v in ref.items()} != {p: sorted(v) for p, v in batch_view.items()}:
            # javac itself printed something else for the batch than for the single files: the batch text rules
            col.add_extra('real_batches_where_alone_and_batch_differ')
            ref = batch_view
        errors = []
        allheads = {'%s:%d: %s: %s' % (e['path'], e['line'], k, e['msg'])
                    for k, es in (('error', pb['errors']), ('warning', pb['warnings'])) for e in es}
        filters = []
        if b['filter'] and pb['errors'] and not crash:
            e = pb['errors'][b['pick'] % len(pb['errors'])]
            pat = '.*' + re.escape(e['msg']) + '.*'
            rx = re.compile(pat)
            if all((ln in allheads) for ln in out.split('\n') if rx.search(ln)):
                filters = [pat]
        rxs = [re.compile(p) for p in filters]
        for p in paths:
            for ln, m in ref.get(p, []):
                head = '%s:%d: error: %s' % (p, ln, m)
                errors.append({'file': p, 'msg': '%d: error: %s' % (ln, m), 'head': head,
                               'filtered': any(rx.search(head) for rx in rxs)})
        case = {'compiler': 'java', 'output': out, 'files': paths, 'root': root, 'filters': filters, 'real': True,
                'truth': {'crash': crash, 'errors': errors, 'warn_files': warn_files,
                          'has_note': any_note or bool(pb['notes']) or bool(pb['warnings'])},
                'sources': {f['pkg']: f['text'] for f in b['files']} if not crash else {}}
        col.feature('real:batches')
        if b['xlint']:
            col.feature('real:xlint')
        if filters:
            col.feature('real:filters')
        if pb['warnings']:
            col.feature('real:with-warnings')
        if pb['notes']:
            col.feature('real:with-notes')
        if any(e['extra'] and len(e['extra']) > 2 for e in pb['errors']):
            col.feature('real:multi-line-message')
        col.add_extra('real_failing_files', len({e['file'] for e in errors}))
        col.add_extra('real_error_diagnostics', len(errors))
        judge(case, col)
    finally:
        shutil.rmtree(tmp, ignore_errors=True)


def crash_batch_plan():
    deep = 'int deep() { return ' + ' + '.join(['1'] * 7000) + '; }'
    return {'files': [{'pkg': 'alpha', 'kind': 'err', 'text': java_source('alpha', ['int bad1() { int x = "s"; return x; }'])},
                      {'pkg': 'error', 'kind': 'ok', 'text': java_source('error', [deep]), 'skip_alone': True}],
            'xlint': False, 'filter': False, 'pick': 0}


# ------------------------------------------------------------------ driver
def run_shard(spec, col):
    from vlib import hyp
    comp = spec['compiler']
    compiler_class(comp)

    def one(case):
        col.feature('batches:' + comp)
        for f in case.pop('features'):
            col.feature('%s:%s' % (comp, f))
        judge(case, col)
        fragment_probe(case, col)

    hyp.explore(batch_strategy(comp), one, spec['nsyn'], col.shard_seed(comp))
    if spec.get('crash_batch'):
        run_real_batch(crash_batch_plan(), col, crash_batch=True)
    if spec.get('njavac'):
        hyp.explore(real_strategy(), lambda b: run_real_batch(b, col), spec['njavac'], col.shard_seed('javac'))


def replay(case, col):
    compiler_class(case['compiler'])
    case = dict(case)
    case.pop('features', None)
    judge(case, col)


def finish(tier, cov):
    return {'synthetic_batches_per_compiler': NSYN[tier], 'real_javac_batches_planned': NREAL[tier] + 1}
