"""C01 — generated programs are well-typed (the pass oracle).

Every program the real generator returns (4 languages, 16 switch
combinations, seed mode at default and reduced limits, Hypothesis-tape mode at
small limits) is judged by the independent reference type checker RC
(vlib/rc.py) on the positions the property names: R1 initialisers and default
values, R2 call / constructor / super-constructor arguments and array
elements, R3 function and lambda results, R4 conditional branches, R5
assignments, R6 explicit type arguments within bounds, R7 class obligations.
A violation is attributed to the innermost gen_* routine that produced the
offending node (signature)."""
from vlib import boot, pg, progcheck, rc

LEVEL = 'exploration'
RULE = ('case = program returned by Generator.generate() under (language, seed or Hypothesis-owned tape, switches, limits); '
        'judged by the reference checker on every typed position; non-trivial = the program has >= 1 generic class '
        'instantiation and >= 1 call with a receiver; distinct = distinct program text; evidence lists judged positions '
        'per rule and the feature histogram (projections, bounded parameters, generic methods, lambdas, overrides)')
ASSUMPTIONS = [
    'RC (vlib/rc.py) is the trusted judge; it was calibrated against javac on Java programs (see C02) - for Kotlin, Groovy and Scala no compiler is installed',
    'typing conventions of RC: a declared top-level wildcard means its bound; member access on projected receivers goes through capture conversion; '
    'typed bottoms have their type; conditional branches are judged against the expected type of the position',
    'operand types of binary operators are not positions the property names and are not judged',
]
MIN_NONTRIVIAL = {'quick': 150, 'thorough': 4000}
NSHARDS = 16
HARD_TIMEOUT = {'quick': 1500, 'thorough': 5 * 3600}
R_RULES = ('R1', 'R2', 'R2b', 'R3', 'R4', 'R5', 'R6', 'R7')


def shards(tier):
    return [{'k': k, 'lang': boot.LANGS[k % 4]} for k in range(NSHARDS)]


def make_judge(col, prefix, pid):
    def judge(case):
        viols, stats = rc.check_program(case.program)
        text = ''
        try:
            text = pg.translate(case.program, case.lang)
        except Exception:
            col.feature('translate_failed(C18 territory)')
        f = pg.features(case.program)
        for k, v in stats.items():
            if k.startswith(('positions', 'sites', 'no_judgement', 'conditional', 'sam_', 'smart_casts')):
                col.add_extra('rc_' + k, v)
        for k in ('generic_new', 'new_with_projection', 'bounded_class_params', 'generic_functions', 'lambdas',
                  'overrides', 'receiver_calls', 'calls_with_type_args', 'smart_casts', 'func_refs', 'varargs',
                  'default_params', 'variant_class_params', 'assignments'):
            if f.get(k):
                col.feature('programs_with_' + k)
        out = []
        seen = set()
        for v in viols:
            if not v['rule'].startswith(prefix):
                continue
            origin = pg.origin_of(v.get('node_id'))
            sig = '%s/%s/origin=%s' % (pid, v['rule'], origin)
            if sig in seen:
                continue
            seen.add(sig)
            d = {k: v[k] for k in ('rule', 'path', 'expected', 'actual', 'node')}
            d.update(lang=case.lang, switches=case.switches)
            out.append((sig, d))
        nontriv = f.get('generic_new', 0) > 0 and f.get('receiver_calls', 0) > 0
        sample = lambda: {'lang': case.lang, 'mode': case.mode, 'seed': case.seed, 'switches': case.switches,
                          'limits': case.limits, 'judged_positions': stats.get('positions', 0),
                          'nodes': f.get('nodes'), 'program_head': text[:400]}
        return out, nontriv, sample, progcheck.text_key(text or repr(case.key()))
    return judge


def wrap_gen(judge):
    return judge


def run_shard(spec, col):
    quick = col.tier == 'quick'
    boot.init(spec['lang'])
    pg.install_origin_tags()
    judge0 = make_judge(col, 'R', 'C01')

    def judge(case):
        return judge0(case)
    # origin tags must be on while generating: switch on globally for this process
    pg.origin_tags(True)
    orig_gen = pg.gen_case

    def gen_with_tags(*a, **k):
        pg.origin_tags(True)
        return orig_gen(*a, **k)
    pg.gen_case = gen_with_tags
    try:
        progcheck.run(spec, col, judge, n_seed=25 if quick else 600, n_tape=60 if quick else 2500)
    finally:
        pg.gen_case = orig_gen


def replay(key, col):
    boot.init(key['lang'])
    pg.install_origin_tags()
    pg.origin_tags(True)
    case = pg.regen(key)
    if case.program is None:
        return
    viols, nontriv, sample, k = make_judge(col, 'R', 'C01')(case)
    col.case(key=k, nontrivial=nontriv, sample=sample)
    for sig, d in viols:
        col.violation(sig, d, key)
