"""Synthetic type universes (TG): a class table as RM terms together with the
real IR objects for it, built the way the generator and the unit tests build
them (TypeConstructor / SimpleClassifier / TypeParameter, instantiation
through TypeConstructor.new)."""
from hypothesis import strategies as st

from vlib import rm

VARIANT_LANGS = ('kotlin', 'scala')


class Universe:
    def __init__(self, lang):
        from src.ir import BUILTIN_FACTORIES
        self.lang = lang
        self.factory = BUILTIN_FACTORIES[lang]
        self.table = rm.Table()
        self.classes = {}        # key -> IR object (SimpleClassifier | TypeConstructor)
        self.tparams = {}        # key -> [TypeParameter objects]
        self.order = []          # user class keys in declaration order
        self.builtins = []       # [(term, IR)] boxed builtins used as ground types
        self.primitives = []     # [(term, IR)] java/groovy primitives
        f = self.factory
        for ir in (f.get_any_type(), f.get_number_type(), f.get_integer_type(),
                   f.get_string_type(), f.get_double_type()):
            self.builtins.append((rm.to_term(ir, self.table), ir))
        self.top = self.builtins[0]
        if hasattr(f, 'get_primitive_types'):
            for ir in f.get_primitive_types()[:3]:
                self.primitives.append((rm.to_term(ir, self.table), ir))
        self.by_term = {t: ir for t, ir in self.builtins}
        arr = f.get_array_type()
        self.array_key = rm.con_key(arr)
        rm.reg_con(arr, self.table)
        self.classes[self.array_key] = arr
        self.tparams[self.array_key] = list(arr.type_parameters)
        # every other builtin of the language is known by term (lookup only: the pools of the random legs are unchanged)
        self.all_builtins = []
        for ir in f.get_non_nothing_types():
            if ir.is_type_constructor():
                key = rm.con_key(ir)
                if key not in self.classes:
                    rm.reg_con(ir, self.table)
                    self.classes[key] = ir
                    self.tparams[key] = list(ir.type_parameters)
                continue
            if ir.is_parameterized():
                key = rm.con_key(ir.t_constructor)
                if key not in self.classes:
                    rm.reg_con(ir.t_constructor, self.table)
                    self.classes[key] = ir.t_constructor
                    self.tparams[key] = list(ir.t_constructor.type_parameters)
            if getattr(ir, 'primitive', False):
                continue
            t = rm.to_term(ir, self.table)
            self.all_builtins.append((t, ir))
            self.by_term.setdefault(t, ir)

    # ---- declarations
    def add_class(self, name, params=(), sup=None):
        """params: [(pname, variance 'inv'|'out'|'in', bound term|None)];
        sup: term over the params or None."""
        from src.ir import types as tp
        var = {'inv': tp.Invariant, 'out': tp.Covariant, 'in': tp.Contravariant}
        env = {}
        tps = []
        for pn, pv, pb in params:
            b = self.ir(pb, env) if pb is not None else None
            o = tp.TypeParameter(pn, var[pv], b)
            env[pn] = o
            tps.append(o)
        sups = [self.ir(sup, env)] if sup is not None else []
        if params:
            obj = tp.TypeConstructor(name, tps, sups)
        else:
            obj = tp.SimpleClassifier(name, sups)
        self.table.add(name, [(pn, pv, pb) for pn, pv, pb in params],
                       [sup] if sup is not None else [], 'g' if params else 'c', cls_kind=0)
        self.classes[name] = obj
        self.tparams[name] = tps
        self.order.append(name)
        return obj

    def decl(self, name):
        """the class as the generator holds it: an ast.ClassDeclaration whose get_type() equals classes[name]
        (pools handed to the instantiation / search helpers by the generator are lists of declarations + builtins)."""
        from src.ir import ast
        cache = self.__dict__.setdefault('_decls', {})
        d = cache.get(name)
        if d is None:
            obj = self.classes[name]
            sups = [ast.SuperClassInstantiation(s, []) for s in obj.supertypes]
            d = ast.ClassDeclaration(name, sups, ast.ClassDeclaration.REGULAR, fields=[], functions=[], is_final=False,
                                     type_parameters=list(self.tparams.get(name, [])))
            cache[name] = d
        return d

    def env_of(self, key):
        return {p.name: p for p in self.tparams.get(key, [])}

    # ---- term -> IR
    def ir(self, t, env=None):
        from src.ir import types as tp
        env = env or {}
        k = t[0]
        if k == 'bot':
            return self.factory.get_nothing() if hasattr(self.factory, 'get_nothing') and self.lang in ('kotlin', 'scala') else tp.Nothing
        if k == 'b':
            if t in self.by_term:
                return self.by_term[t]
            for tt, ir in self.primitives:
                if tt == t:
                    return ir
            raise KeyError(t)
        if k == 'c':
            return self.classes[t[1]]
        if k == 'k':
            return self.classes[t[1]]
        if k == 'v':
            if t[1] in env:
                return env[t[1]]
            b = self.ir(t[2], env) if t[2] is not None else None
            return tp.TypeParameter(t[1], tp.Invariant, b)
        if k == 'star':
            return tp.WildCardType()
        if k == 'p':
            v = {'out': tp.Covariant, 'in': tp.Contravariant, 'inv': tp.Invariant}[t[1]]
            return tp.WildCardType(self.ir(t[2], env), v)
        if k == 'i':
            con = self.classes[t[1]]
            return con.new([self.ir(a, env) for a in t[2]])
        raise KeyError(t)

    def prim_ir(self, t):
        for tt, ir in self.primitives:
            if tt == t:
                return ir
        return None

    # ---- pools
    def ground_base(self):
        out = [t for t, _ in self.builtins]
        out += [('c', k) for k in self.order if not self.table.cls[k]['params']]
        return out

    def generics(self):
        return [k for k in self.order if self.table.cls[k]['params']]

    def describe(self):
        out = []
        for k in self.order:
            info = self.table.cls[k]
            ps = ', '.join('%s%s%s' % ('' if pv == 'inv' else pv + ' ', pn, ': ' + rm.show(pb) if pb is not None else '')
                           for pn, pv, pb in info['params'])
            out.append('class %s%s%s' % (k, '<' + ps + '>' if ps else '',
                                         ' : ' + rm.show(info['supers'][0]) if info['supers'] else ''))
        return out

    def spec(self):
        """JSON-able description sufficient to rebuild the universe."""
        return {'lang': self.lang,
                'classes': [[k, self.table.cls[k]['params'], self.table.cls[k]['supers'][0] if self.table.cls[k]['supers'] else None]
                            for k in self.order]}


def tuplify(x):
    if isinstance(x, list):
        return tuple(tuplify(y) for y in x)
    return x


def universe_from_spec(spec):
    u = Universe(spec['lang'])
    for name, params, sup in spec['classes']:
        u.add_class(name, [(p[0], p[1], tuplify(p[2]) if p[2] is not None else None) for p in params],
                    tuplify(sup) if sup is not None else None)
    return u


# ------------------------------------------------------------------ enumeration
def enum_types(u, depth, R=None, with_proj=True, with_star=True, limit=None, base=None, max_arg_pool=None):
    """All well-formed ground types up to `depth` (depth 0 = base types).
    max_arg_pool: at depth >= 2 the argument pool is thinned deterministically
    to at most that many types (evenly spread), keeping the enumeration finite
    and small; depth 1 is always complete."""
    R = R or rm.RM(u.table)
    levels = [list(base if base is not None else u.ground_base())]
    import itertools
    for d in range(1, depth + 1):
        prev = [t for lv in levels for t in lv]
        if d >= 2 and max_arg_pool and len(prev) > max_arg_pool:
            base0 = levels[0]
            rest = [t for t in prev if t not in base0]
            room = max(1, max_arg_pool - len(base0))
            step = max(1, len(rest) // room)
            prev = list(base0) + rest[::step][:room]
        new = []
        for key in u.generics():
            params = u.table.cls[key]['params']
            choices = []
            for pn, pv, pb in params:
                c = list(prev)
                if with_proj:
                    if pv != 'in':
                        c += [('p', 'out', x) for x in prev]
                    if pv != 'out':
                        c += [('p', 'in', x) for x in prev]
                if with_star:
                    c.append(rm.STAR)
                choices.append(c)
            for args in itertools.product(*choices):
                t = ('i', key, tuple(args))
                if rm.depth(t) != d:
                    continue
                if R.wf(t):
                    new.append(t)
                    if limit and len(new) + len(prev) >= limit:
                        break
        levels.append(new)
    return [t for lv in levels for t in lv]


# ------------------------------------------------------------------ strategies
NAMES = ['A', 'B', 'C', 'D', 'E', 'F', 'G', 'H']


@st.composite
def universes(draw, lang, max_classes=6, max_params=3):
    u = Universe(lang)
    R = rm.RM(u.table)
    n = draw(st.integers(1, max_classes))
    reuse_names = draw(st.booleans())
    variant = lang in VARIANT_LANGS
    for i in range(n):
        name = NAMES[i]
        nparams = draw(st.sampled_from([0, 0, 1, 1, 1, 2, 2, 3][:2 + 2 * max_params]))
        params = []
        scope = {}
        for j in range(nparams):
            pn = ('T%d' % j) if reuse_names else ('%s%d' % (name, j))
            pv = draw(st.sampled_from(['inv', 'inv', 'out', 'in'])) if variant else 'inv'
            kindb = draw(st.sampled_from(['none', 'none', 'ground', 'param', 'ptype', 'nested']))
            pb = None
            if kindb == 'ground':
                pb = draw(types(u, R, depth=1, scope={}, proj=False))
            elif kindb == 'param' and params:
                q = draw(st.sampled_from(params))
                pb = ('v', q[0], q[2])
            elif kindb == 'ptype' and u.generics():
                # the bound may mention earlier parameters at any nesting depth (Bar<Foo<T0>>)
                pb = draw(types(u, R, depth=draw(st.sampled_from([1, 1, 2])), scope=dict(scope), proj=False, force_generic=True))
            elif kindb == 'nested' and params and u.generics():
                # an earlier parameter mentioned at nesting depth 2: G1<.., G2<.., Q, ..>, ..>
                q = draw(st.sampled_from(params))
                inner = ('v', q[0], q[2])
                for level in range(2):
                    g = draw(st.sampled_from(u.generics()))
                    gp = u.table.cls[g]['params']
                    pos = draw(st.integers(0, len(gp) - 1))
                    fill = draw(st.sampled_from(u.ground_base()))
                    if level == 1 and gp[pos][1] != 'in' and draw(st.booleans()):
                        # ... under a use-site projection: G1<out G2<.., Q, ..>>
                        inner = ('p', 'out', inner)
                    inner = ('i', g, tuple(inner if i == pos else fill for i in range(len(gp))))
                pb = inner if R.wf(inner) else None
            if pb is not None and (rm.is_proj(pb) or pb == rm.BOT):
                pb = None
            # a variant parameter must not be used in another parameter's bound in a conflicting way:
            # keep it simple and sound - bounds mention only invariant parameters
            if pb is not None and variant:
                fv = rm.free_vars(pb)
                if any(p[0] in fv and p[1] != 'inv' for p in params):
                    pb = None
            params.append((pn, pv, pb))
            scope[pn] = ('v', pn, pb)
        sup = None
        if u.order and draw(st.integers(0, 3)) > 0:
            # supertype over own (invariant-safe) parameters
            sscope = {pn: ('v', pn, pb) for pn, pv, pb in params}
            sup = draw(types(u, R, depth=2, scope=sscope, proj=draw(st.booleans()), star=False, only_user=True))
            if sup is not None and sup[0] == 'i':
                # immediate arguments of a supertype cannot be projections (Java / Kotlin); nested ones can
                sup = ('i', sup[1], tuple((a[2] if a[0] == 'p' else a) for a in sup[2]))
                if rm.has_kind(sup, ('star',)) or not R.wf(sup):
                    sup = None
            if sup is not None and not _variance_ok(u, sup, params, 'out'):
                sup = None
            if sup is not None and sup[0] not in ('c', 'i'):
                sup = None
        u.add_class(name, params, sup)
        R.memo.clear()
    return u


def _variance_ok(u, t, params, pos):
    """Declaration-site variance check for a supertype: an `out` parameter may
    only occur in covariant positions, an `in` one in contravariant ones."""
    pvar = {pn: pv for pn, pv, pb in params}

    def walk(t, pos):
        k = t[0]
        if k == 'v':
            v = pvar.get(t[1], 'inv')
            if v == 'inv':
                return True
            return v == pos
        if k == 'i':
            info = u.table.cls[t[1]]
            for (pn, pv, pb), a in zip(info['params'], t[2]):
                if a[0] == 'star':
                    continue
                inner, use = (a[2], a[1]) if a[0] == 'p' else (a, 'inv')
                eff = pv if pv != 'inv' else use
                if eff == 'inv':
                    npos = 'inv'
                elif eff == 'out':
                    npos = pos
                else:
                    npos = {'out': 'in', 'in': 'out', 'inv': 'inv'}[pos]
                if not walk(inner, npos):
                    return False
        return True
    return walk(t, pos)


@st.composite
def types(draw, u, R, depth=2, scope=None, proj=True, star=True, force_generic=False,
          only_user=False, prims=False):
    """A well-formed type over universe u; scope: {name: V-term} of type variables in scope.
    Constructed: each argument is drawn among candidates that satisfy the
    substituted bound (the bound itself is always a candidate)."""
    scope = scope or {}
    gens = u.generics()
    if depth <= 0 or not gens or (not force_generic and draw(st.integers(0, 2)) == 0):
        base = [] if only_user else [t for t, _ in u.builtins]
        base += [('c', k) for k in u.order if not u.table.cls[k]['params']]
        if prims and u.primitives:
            base += [t for t, _ in u.primitives]
        base += list(scope.values())
        if not base:
            if not gens:
                return None
        else:
            return draw(st.sampled_from(base))
    key = draw(st.sampled_from(gens))
    params = u.table.cls[key]['params']
    args = []
    th = {}
    for pn, pv, pb in params:
        b = rm.subst(pb, th) if pb is not None else None
        if b is not None and rm.is_proj(b):
            b = b[2] if b[0] == 'p' and b[1] != 'in' else None
        cand = draw(types(u, R, depth=depth - 1, scope=scope, proj=proj, star=star))
        if cand is None:
            cand = u.top[0]
        if b is not None and not R.sub(cand, b):
            cand = b
        form = draw(st.sampled_from(['plain', 'plain', 'out', 'in', 'star'])) if proj else 'plain'
        if form == 'star' and not star:
            form = 'plain'
        if form == 'out' and pv == 'in':
            form = 'plain'
        if form == 'in' and pv == 'out':
            form = 'plain'
        if form == 'in' and b is not None:
            # `in X` with a declared bound: keep it well-formed by using the bound's lower side
            form = 'plain'
        if rm.is_proj(cand):
            form = 'plain'
        if form == 'plain':
            a = cand
        elif form == 'star':
            a = rm.STAR
        else:
            a = ('p', form, cand)
        args.append(a)
        th[pn] = a
    return ('i', key, tuple(args))


# ------------------------------------------------------------------ fixed tables
def fixed_universes(lang, with_chains=False):
    """Small hand-made tables covering the shapes the subtyping rules
    distinguish (C06 exhaustive part)."""
    V = lambda n, b=None: ('v', n, b)
    I = lambda k, *a: ('i', k, tuple(a))
    out = []
    variant = lang in VARIANT_LANGS
    num = None

    def mk():
        return Universe(lang)
    # T1: invariant generics, subclass passing / nesting its parameter
    u = mk()
    num = u.builtins[1][0]
    u.add_class('X')
    u.add_class('Y', sup=('c', 'X'))
    u.add_class('A', [('T', 'inv', None)])
    u.add_class('C', [('T', 'inv', None)])
    u.add_class('B', [('T', 'inv', None)], I('A', I('C', V('T'))))
    u.add_class('G', [('S', 'inv', None)], I('A', V('S')))
    out.append(('inv-nesting', u))
    # T2: bounded parameter, non-generic subclass of an instantiation
    u = mk()
    u.add_class('X')
    u.add_class('Y', sup=('c', 'X'))
    u.add_class('A', [('T', 'inv', ('c', 'X'))])
    u.add_class('D', sup=I('A', ('c', 'Y')))
    u.add_class('P', [('K', 'inv', None), ('L', 'inv', None)])
    u.add_class('Q', [('M', 'inv', None)], I('P', V('M'), ('c', 'X')))
    out.append(('bounded-two-params', u))
    # T3: three-level chains that permute / nest their parameters (same and different parameter names); used by the
    # variables-through-the-hierarchy part only (its depth-2 pool would be too large for the all-pairs part)
    u = mk()
    u.add_class('A', [('H', 'inv', None), ('G', 'inv', None)])
    u.add_class('B', [('H', 'inv', None), ('G', 'inv', None)], I('A', V('G'), V('H')))
    u.add_class('C', [('H', 'inv', None), ('G', 'inv', None)], I('B', V('G'), V('H')))
    u.add_class('N', [('N0', 'inv', None)], I('C', V('N0'), I('A', V('N0'), V('N0'))))
    u.add_class('M', [('M0', 'inv', None), ('M1', 'inv', None)], I('N', I('B', V('M1'), V('M0'))))
    if with_chains:
        out.append(('chain-permuting', u))
    if variant:
        u = mk()
        u.add_class('X')
        u.add_class('Y', sup=('c', 'X'))
        u.add_class('Bc', [('T', 'out', None)])
        u.add_class('Cc', [('T', 'in', None)])
        u.add_class('G', [('S', 'inv', None)], I('Bc', V('S')))
        u.add_class('E', [('R', 'out', None)], I('Bc', V('R')))
        out.append(('decl-variance', u))
        u = mk()
        u.add_class('X')
        u.add_class('Y', sup=('c', 'X'))
        u.add_class('A', [('T', 'inv', None)])
        u.add_class('Bc', [('T', 'out', None)])
        u.add_class('H', [('S', 'inv', None)], I('A', I('Bc', V('S'))))
        u.add_class('Cc', [('T', 'in', None)])
        out.append(('variance-nesting', u))
    return out
