"""Call records: top-level calls of the type helpers made while the real
generator (or a mutation) runs.  Arguments and results are converted to terms
immediately (objects may be mutated later), de-duplicated and capped.  They
feed C06 / C08 / C09 / C10 ("every query the generator issues")."""
import contextlib

from vlib import boot, rm

CAP = 400      # records kept per kind per program


class Recorder:
    def __init__(self, kinds=('subtype', 'inst', 'instf', 'find_subtypes', 'irrelevant', 'unify')):
        self.kinds = set(kinds)
        self.table = rm.Table()
        self.records = {k: [] for k in self.kinds}
        self.seen = set()
        self.depth = 0
        self.installed = False

    def term(self, t):
        try:
            return rm.to_term(t, self.table)
        except Exception:
            return ('unk',)

    def add(self, kind, rec):
        key = (kind, repr(rec))
        if key in self.seen or len(self.records[kind]) >= CAP:
            return
        self.seen.add(key)
        self.records[kind].append(rec)

    def take(self):
        r = {'records': self.records, 'table': self.table}
        self.records = {k: [] for k in self.kinds}
        self.seen = set()
        self.table = rm.Table()
        return r

    @contextlib.contextmanager
    def recording(self):
        from src.ir import type_utils as tu, types as tp
        from src.generators.config import cfg
        R = self
        saved = []

        def patch(obj, name, wrapper_factory):
            orig = getattr(obj, name)
            saved.append((obj, name, orig))
            setattr(obj, name, wrapper_factory(orig))

        def top(fn):
            def run(*a, **k):
                R.depth += 1
                try:
                    return fn(*a, **k)
                finally:
                    R.depth -= 1
            return run

        def w_inst(orig):
            def instantiate_type_constructor(type_constructor, types, only_regular=True, type_var_map=None,
                                             variance_choices=None, enable_pecs=True,
                                             disable_variance_functions=False, disable_variance=False):
                is_top = R.depth == 0
                pre = None
                if is_top:
                    pre = {
                        'con': rm.con_key(type_constructor),
                        'params': [(p.name, rm.var_str(p.variance), R.term(p.bound)) for p in type_constructor.type_parameters],
                        'pre': {getattr(k, 'name', '?'): R.term(v) for k, v in (type_var_map or {}).items()},
                        'vc': None if variance_choices is None else
                        {getattr(k, 'name', '?'): tuple(v) for k, v in variance_choices.items()},
                        'flags': (bool(enable_pecs), bool(disable_variance_functions), bool(disable_variance)),
                        'dis': (bool(cfg.dis.use_site_variance), bool(cfg.dis.use_site_contravariance)),
                        'ntypes': len(types),
                        'pool_has_prims': any(getattr(t, 'primitive', False) for t in types),
                    }
                    R.term(type_constructor)
                R.depth += 1
                try:
                    res = orig(type_constructor, types, only_regular, type_var_map, variance_choices, enable_pecs,
                               disable_variance_functions, disable_variance)
                finally:
                    R.depth -= 1
                if is_top and res is not None:
                    ptype, m = res
                    pre['args'] = [R.term(a) for a in ptype.type_args]
                    pre['prim_args'] = [bool(getattr(a, 'primitive', False)) or
                                        bool(getattr(getattr(a, 'bound', None), 'primitive', False)) for a in ptype.type_args]
                    pre['map'] = {getattr(k, 'name', '?'): R.term(v) for k, v in (m or {}).items()}
                    R.add('inst', pre)
                return res
            return instantiate_type_constructor

        def w_instf(orig):
            def instantiate_parameterized_function(type_parameters, types, only_regular=True, type_var_map=None):
                is_top = R.depth == 0
                pre = None
                if is_top:
                    pre = {'params': [(p.name, rm.var_str(p.variance), R.term(p.bound)) for p in type_parameters],
                           'pre': {getattr(k, 'name', '?'): R.term(v) for k, v in (type_var_map or {}).items()},
                           'dis': (bool(cfg.dis.use_site_variance), bool(cfg.dis.use_site_contravariance))}
                R.depth += 1
                try:
                    res = orig(type_parameters, types, only_regular, type_var_map)
                finally:
                    R.depth -= 1
                if is_top and res is not None:
                    pre['map'] = {getattr(k, 'name', '?'): R.term(v) for k, v in res.items()}
                    pre['prim_args'] = {getattr(k, 'name', '?'): bool(getattr(v, 'primitive', False)) for k, v in res.items()}
                    R.add('instf', pre)
                return res
            return instantiate_parameterized_function

        def w_subtypes(orig):
            def find_subtypes(etype, types, include_self=False, bound=None, concrete_only=False, ignore_variance=False):
                is_top = R.depth == 0
                R.depth += 1
                try:
                    res = orig(etype, types, include_self, bound, concrete_only, ignore_variance)
                finally:
                    R.depth -= 1
                if is_top and res is not None:
                    R.add('find_subtypes', {'etype': R.term(etype), 'include_self': bool(include_self),
                                            'concrete_only': bool(concrete_only), 'ignore_variance': bool(ignore_variance),
                                            'result': [R.term(x) for x in res]})
                return res
            return find_subtypes

        def w_irrelevant(orig):
            def find_irrelevant_type(etype, types, factory):
                is_top = R.depth == 0
                R.depth += 1
                try:
                    res = orig(etype, types, factory)
                finally:
                    R.depth -= 1
                if is_top:
                    R.add('irrelevant', {'etype': R.term(etype), 'result': R.term(res) if res is not None else None,
                                         'etype_prim': bool(getattr(etype, 'primitive', False))})
                return res
            return find_irrelevant_type

        def w_unify(orig):
            def unify_types(t1, t2, factory, same_type=True):
                is_top = R.depth == 0
                R.depth += 1
                try:
                    res = orig(t1, t2, factory, same_type)
                finally:
                    R.depth -= 1
                if is_top and res:
                    R.add('unify', {'t': R.term(t1), 'p': R.term(t2), 'same': bool(same_type),
                                    'm': {getattr(k, 'name', '?'): R.term(v) for k, v in res.items()}})
                return res
            return unify_types

        def w_direct(orig):
            def _compute_type_variable_assignments(type_parameters, types, type_var_map=None, variance_choices=None,
                                                   for_type_constructor=True):
                is_top = R.depth == 0
                pre = None
                if is_top:
                    # called directly by the generator (method of a generic class: class + method parameters together)
                    pre = {
                        'con': '<direct call of _compute_type_variable_assignments>',
                        'params': [(p.name, rm.var_str(p.variance), R.term(p.bound)) for p in type_parameters],
                        'pre': {getattr(k, 'name', '?'): R.term(v) for k, v in (type_var_map or {}).items()},
                        'vc': None if variance_choices is None else
                        {getattr(k, 'name', '?'): tuple(v) for k, v in variance_choices.items()},
                        'flags': (False, False, False),
                        'dis': (bool(cfg.dis.use_site_variance), bool(cfg.dis.use_site_contravariance)),
                        'ntypes': len(types), 'direct': True,
                    }
                R.depth += 1
                try:
                    res = orig(type_parameters, types, type_var_map, variance_choices, for_type_constructor)
                finally:
                    R.depth -= 1
                if is_top and res is not None:
                    t_args, m = res
                    pre['args'] = [R.term(a) for a in t_args]
                    pre['prim_args'] = [bool(getattr(a, 'primitive', False)) for a in t_args]
                    pre['map'] = {getattr(k, 'name', '?'): R.term(v) for k, v in (m or {}).items()}
                    R.add('inst', pre)
                return res
            return _compute_type_variable_assignments

        if 'inst' in self.kinds:
            patch(tu, 'instantiate_type_constructor', w_inst)
            patch(tu, '_compute_type_variable_assignments', w_direct)
        if 'instf' in self.kinds:
            patch(tu, 'instantiate_parameterized_function', w_instf)
        if 'find_subtypes' in self.kinds:
            patch(tu, 'find_subtypes', w_subtypes)
        if 'irrelevant' in self.kinds:
            patch(tu, 'find_irrelevant_type', w_irrelevant)
        if 'unify' in self.kinds:
            patch(tu, 'unify_types', w_unify)
        if 'subtype' in self.kinds:
            for cls in (tp.SimpleClassifier, tp.ParameterizedType, tp.TypeParameter, tp.WildCardType, tp.TypeConstructor,
                        tp.Builtin):
                for meth in ('is_subtype', 'is_assignable'):
                    if meth not in cls.__dict__:
                        continue

                    def wf(orig, meth=meth):
                        def f(self, other):
                            is_top = R.depth == 0
                            R.depth += 1
                            try:
                                res = orig(self, other)
                            finally:
                                R.depth -= 1
                            if is_top and len(R.records['subtype']) < CAP:
                                R.add('subtype', {'s': R.term(self), 't': R.term(other), 'res': bool(res), 'meth': meth,
                                                  'prim': bool(getattr(self, 'primitive', False) or getattr(other, 'primitive', False))})
                            return res
                        return f
                    patch(cls, meth, wf)
        try:
            yield self
        finally:
            for obj, name, orig in reversed(saved):
                setattr(obj, name, orig)


def final_table(program, rec_table):
    """class table for judging records: the program's final ClassDeclarations,
    completed with the builtins / builtin constructors seen while recording."""
    from src.ir import ast
    decls = [d for d in program.context.get_declarations(ast.GLOBAL_NAMESPACE, only_current=True).values()
             if isinstance(d, ast.ClassDeclaration)]
    table = rm.table_from_decls(decls)
    for k, v in rec_table.cls.items():
        if k not in table.cls and v is not None:
            table.cls[k] = v
    return table
